package main

// seq engine: histories of public operations over a pool of live frames (C01, C02, C20).

import (
	"bytes"
	"encoding/hex"
	"fmt"
	"sort"
	"strconv"
	"strings"
	"math"
	"time"

	"github.com/kishyassin/goframe/dataframe"
)

type DF = dataframe.DataFrame

// ---- callbacks of the closed family (mirrors ApplyFn / AggFn in lean/GoframeModel/Step.lean) ----

func applyFn(tag int) dataframe.FuncType {
	switch tag {
	case 0:
		return func(xs []any) any { out := make([]any, len(xs)); copy(out, xs); return out }
	case 1:
		return func(xs []any) any {
			out := make([]any, len(xs))
			for i, v := range xs {
				out[len(xs)-1-i] = v
			}
			return out
		}
	case 2:
		return func(xs []any) any { return 7 }
	case 3:
		return func(xs []any) any { return len(xs) }
	case 4:
		return func(xs []any) any {
			if len(xs) == 0 || xs[0] == nil {
				return nil
			}
			return xs[0]
		}
	case 5:
		return func(xs []any) any {
			out := make([]string, len(xs))
			for i := range out {
				out[i] = "s"
			}
			return out
		}
	case 6:
		return func(xs []any) any {
			out := make([]int, len(xs))
			for i := range out {
				out[i] = i
			}
			return out
		}
	case 8:
		return func(xs []any) any { return xs } // identity: returns the slice it was given
	case 9:
		// appends to its argument (a pure function may: the result is a new slice value of length len+1)
		return func(xs []any) any {
			if len(xs) == 0 {
				return xs
			}
			return append(xs, xs[0])
		}
	default:
		return func(xs []any) any {
			out := make([]bool, len(xs))
			for i, v := range xs {
				out[i] = v == nil
			}
			return out
		}
	}
}

func aggFn(tag int) func([]any) any {
	switch tag {
	case 0:
		return func(xs []any) any { return len(xs) }
	case 1:
		return func(xs []any) any {
			if len(xs) == 0 {
				return nil
			}
			return xs[0]
		}
	case 2:
		return func(xs []any) any {
			if len(xs) == 0 {
				return nil
			}
			return xs[len(xs)-1]
		}
	case 4:
		return func(xs []any) any { return xs } // identity: keeps the slice it was given (rendered after the call)
	default:
		return func(xs []any) any {
			parts := make([]string, len(xs))
			for i, v := range xs {
				parts[i] = fmt.Sprintf("%v", v)
			}
			return strings.Join(parts, ",")
		}
	}
}

// guard runs f, converting a panic into a status.
func guard(f func() error) (status string, detail string) {
	defer func() {
		if r := recover(); r != nil {
			status = "panic"
			detail = fmt.Sprint(r)
		}
	}()
	if err := f(); err != nil {
		return "err", err.Error()
	}
	return "ok", ""
}

type seqState struct {
	r     *Rng
	e     *Enc
	pool  []*DF
	prev  []string
	mode  string
	names []string
	kinds []string // when non-empty, only these operation kinds are generated
	joinKey string   // the shared key column of the c03 mode
	script  []string // when non-empty, the next steps are exactly these kinds, each on the most recent frame
	dtHint   map[string]string // column -> the layout its date texts were written for
	nilTag   bool // the script's column-wise Apply uses the callback that returns nil for a column starting with nil
	nilFill  bool // the script's first FillNa fills with nil
	negShift bool    // the script's shift moves rows up (negative periods)
	lastBy  []string // the column list and direction of the last generated sort (reused by the script's "resort")
	lastAsc bool
	extra func()   // extra output of the current step, emitted after the status
}

func (s *seqState) dump() {
	s.e.Tok("D")
	s.e.Int(len(s.pool))
	for i, f := range s.pool {
		var nr int
		st, _ := guard(func() error { nr = f.Nrows(); return nil })
		_ = st
		cur := s.e.FrameS(f) + " " + strconv.Itoa(nr)
		if i < len(s.prev) && s.prev[i] == cur {
			s.e.Tok("=")
		} else {
			s.e.Tok("F", cur)
		}
		if i < len(s.prev) {
			s.prev[i] = cur
		} else {
			s.prev = append(s.prev, cur)
		}
	}
}

func (s *seqState) anyCell() any {
	if s.r.Chance(10) {
		return Pick(s.r, someTimes())
	}
	return s.r.Cell()
}

func (s *seqState) colList(f *DF, max int, allowBad bool) []string {
	n := s.r.Intn(max + 1)
	out := make([]string, n)
	for i := range out {
		if allowBad {
			out[i] = s.r.NameFor(f, s.names)
		} else {
			ks := keysOf(f)
			if len(ks) == 0 {
				out[i] = "a"
			} else {
				out[i] = Pick(s.r, ks)
			}
		}
	}
	return out
}

// derive: result appended to the pool on success
func (s *seqState) derive(res *DF, err error) error {
	if err != nil {
		return err
	}
	if res == nil {
		return fmt.Errorf("nil result without error")
	}
	s.pool = append(s.pool, res)
	return nil
}

var deriveOps = []string{"head", "tail", "rowslice", "filter", "loc", "iloc", "multiselect", "sort", "shift",
	"dedup", "join", "add", "applycol", "applyrow", "describe", "resample", "group"}
var editOps = []string{"appendrow", "droprow", "fillna", "dropna", "astype", "rename", "addcol", "dropcol",
	"setcell", "adddt", "dedupin"}

func (s *seqState) stepOnce() {
	r, e := s.r, s.e
	var kind string
	pDerive := 50
	if len(s.pool) >= 9 {
		pDerive = 0
	}
	if r.Chance(pDerive) {
		kind = Pick(r, deriveOps)
	} else {
		kind = Pick(r, editOps)
	}
	if len(s.kinds) > 0 {
		kind = Pick(r, s.kinds)
	} else if r.Chance(4) && len(s.pool) < 9 {
		kind = "csvrt"
	}
	t := r.Intn(len(s.pool))
	resort := false
	if len(s.script) > 0 {
		kind, s.script = s.script[0], s.script[1:]
		t = len(s.pool) - 1
		if strings.HasSuffix(kind, "@0") { // … on the first frame of the pool (the source of what the script derived)
			kind, t = strings.TrimSuffix(kind, "@0"), 0
		}
		if kind == "resort" {
			kind, resort = "sort", s.lastBy != nil
		}
	}
	if s.mode == "c02" && len(s.pool) > 1 && r.Chance(50) {
		t = len(s.pool) - 1 - r.Intn(2) // favour the most recently derived frames and their neighbours
	}
	f := s.pool[t]
	n := 0
	guard(func() error { n = f.Nrows(); return nil })
	bad := s.mode == "c20" || r.Chance(15)
	s.extra = nil
	if kind == "qrow" || kind == "qnames" || kind == "qshape" {
		s.query(kind, t, f, n, bad)
		return
	}
	if kind == "csvrt" {
		s.csvRoundTrip(t, f)
		return
	}
	e.Tok("OP")
	var status string
	switch kind {
	case "head", "tail":
		c := r.Range(0, n+1)
		if n > 2048 && r.Chance(60) {
			c = r.Range(2049, n)
		}
		if bad || (s.mode == "c08" && r.Chance(40)) {
			c = r.BoundaryInt(n)
		}
		e.Tok(kind)
		e.Int(t)
		e.Int(c)
		status, _ = guard(func() error {
			if kind == "head" {
				return s.derive(f.Head(c), nil)
			}
			return s.derive(f.Tail(c), nil)
		})
	case "rowslice":
		a, b := r.Range(-1, n+1), r.Range(-1, n+2)
		if bad || (s.mode == "c08" && r.Chance(30)) {
			a, b = r.BoundaryInt(n), r.BoundaryInt(n)
		}
		e.Tok("rowslice")
		e.Int(t)
		e.Int(a)
		e.Int(b)
		status, _ = guard(func() error { return s.derive(f.RowSlice(a, b), nil) })
	case "filter":
		bits := make([]bool, n)
		for i := range bits {
			bits[i] = r.Bool()
		}
		e.Tok("filter")
		e.Int(t)
		e.Int(len(bits))
		for _, b := range bits {
			e.Bool(b)
		}
		var log []map[string]any
		status, _ = guard(func() error {
			calls := 0
			pred := func(row map[string]any) bool {
				j := calls
				calls++
				cp := make(map[string]any, len(row))
				for k, v := range row {
					cp[k] = v
				}
				log = append(log, cp)
				return j < len(bits) && bits[j]
			}
			if r.Bool() {
				return s.derive(f.Filter(pred), nil)
			}
			return s.derive(f.BooleanIndex(pred), nil)
		})
		s.extra = func() {
			e.Tok("X")
			e.Int(len(log))
			for _, row := range log {
				e.Row(row)
			}
		}
	case "loc":
		nl := r.Intn(4)
		labels := make([]any, nl)
		for i := range labels {
			labels[i] = r.Cell()
			if ic, ok := f.Columns["index"]; ok && len(ic.Data) > 0 && r.Chance(70) {
				labels[i] = Pick(r, ic.Data)
			}
		}
		cols := s.colList(f, 3, bad)
		e.Tok("loc")
		e.Int(t)
		e.Cells(labels)
		e.Strs(cols)
		status, _ = guard(func() error { return s.derive(f.Loc(labels, cols)) })
	case "iloc":
		nr, nc := r.Intn(4), r.Intn(4)
		if r.Chance(25) {
			nr = r.Range(3, 6)
		}
		rows, cols := make([]int, nr), make([]int, nc)
		for i := range rows {
			rows[i] = r.Range(0, max(n-1, 0))
			if bad && r.Chance(30) {
				rows[i] = r.BoundaryInt(n)
			}
		}
		if nr >= 2 && n >= nr && r.Chance(25) {
			st := r.Intn(n - nr + 1) // a consecutive run of row positions
			for i := range rows {
				rows[i] = st + i
			}
			if nr >= 3 && r.Bool() {
				// the ends of a run, the positions in between shuffled or repeated (looks like a run from outside)
				for i := 1; i < nr-1; i++ {
					rows[i] = st + r.Range(0, nr-1)
				}
			}
		}
		for i := range cols {
			cols[i] = r.Range(0, max(f.Ncols()-1, 0))
			if bad && r.Chance(30) {
				cols[i] = r.BoundaryInt(f.Ncols())
			}
		}
		e.Tok("iloc")
		e.Int(t)
		e.Ints(rows)
		e.Ints(cols)
		status, _ = guard(func() error { return s.derive(f.Iloc(rows, cols)) })
	case "multiselect":
		cols := s.colList(f, 3, bad)
		e.Tok("multiselect")
		e.Int(t)
		e.Strs(cols)
		status, _ = guard(func() error { return s.derive(f.MultiSelect(cols...)) })
	case "sort":
		cols := s.colList(f, 2, bad)
		if r.Chance(10) {
			cols = s.colList(f, 4, bad) // longer key lists, names may repeat
		}
		asc := r.Bool()
		if resort {
			cols, asc = s.lastBy, s.lastAsc // the very same request again
		}
		if (s.mode == "c06" || s.mode == "c20") && !resort && r.Chance(10) {
			// a longer key list: a repeated name followed by (or preceded by) further keys
			if ks := keysOf(f); len(ks) >= 2 {
				cols = append([]string{ks[0], ks[0]}, ks[1:]...)
				if r.Bool() {
					cols[0], cols[len(cols)-1] = cols[len(cols)-1], cols[0]
				}
			}
		}
		s.lastBy, s.lastAsc = cols, asc
		e.Tok("sort")
		e.Int(t)
		e.Strs(cols)
		e.Bool(asc)
		flags := []bool{asc}
		switch r.Intn(8) {
		case 0:
			if asc { // no flag at all means ascending
				flags = nil
			}
		case 1:
			flags = []bool{asc, r.Bool(), r.Bool()} // only the first flag counts
		case 2:
			flags = []bool{asc, !asc}
		}
		if len(cols) >= 3 && r.Bool() {
			flags = []bool{asc, asc} // fewer flags than sort columns, more than one
		}
		status, _ = guard(func() error { return s.derive(f.SortValues(cols, flags...)) })
	case "shift":
		p := r.Range(-2, 3)
		if s.negShift && len(s.script) > 0 {
			p = -r.Range(1, 2)
		} else if bad || (s.mode == "c19" && r.Chance(60)) {
			p = r.BoundaryInt(n)
		}
		e.Tok("shift")
		e.Int(t)
		e.Int(p)
		status, _ = guard(func() error { return s.derive(f.Shift(p), nil) })
	case "dedup", "dedupin":
		sub := s.colList(f, 2, bad)
		keep := Pick(r, []string{"", "first", "last", "none"})
		if bad && r.Chance(40) {
			keep = Pick(r, []string{"bogus", "First", " "})
		}
		inplace := kind == "dedupin"
		e.Tok("dedup")
		e.Int(t)
		e.Strs(sub)
		e.Str(keep)
		e.Bool(inplace)
		// the variadic forms: no option struct at all (when the request is the default one), or a second struct, which
		// is ignored
		form := r.Intn(6)
		status, _ = guard(func() error {
			var res *DF
			var err error
			opt := dataframe.DropDuplicatesOption{Subset: sub, Keep: keep, Inplace: inplace}
			switch {
			case form == 0 && len(sub) == 0 && keep == "" && !inplace:
				res, err = f.DropDuplicates()
			case form == 1:
				res, err = f.DropDuplicates(opt, dataframe.DropDuplicatesOption{Subset: []string{"zz"}, Keep: "none", Inplace: !inplace})
			default:
				res, err = f.DropDuplicates(opt)
			}
			if inplace {
				if err == nil && res != f {
					return fmt.Errorf("inplace result is not the receiver")
				}
				return err
			}
			return s.derive(res, err)
		})
	case "join":
		u := r.Intn(len(s.pool))
		if s.mode == "c03" {
			t, u = r.Intn(2), r.Intn(2)
			f = s.pool[t]
		}
		g := s.pool[u]
		limit := 400
		if s.mode == "c03" {
			limit = 6400 // only the two generated frames are ever joined here (at most 30 x 30 rows)
		}
		if f.Nrows()*g.Nrows() > limit { // keep results small: nested-loop joins multiply sizes
			u = t
			g = f
			if f.Nrows() > 20 {
				e.Tok("dropna")
				e.Int(t)
				status, _ = guard(func() error { return f.DropNa() })
				break
			}
		}
		key := s.r.NameFor(f, s.names)
		if _, ok := g.Columns["k"]; ok && r.Chance(60) {
			key = "k"
		}
		if _, ok := g.Columns[s.joinKey]; ok && s.joinKey != "" && r.Chance(70) {
			key = s.joinKey
		}
		jk := r.Intn(4)
		e.Tok("join")
		e.Int(jk)
		e.Int(t)
		e.Int(u)
		e.Str(key)
		status, _ = guard(func() error {
			switch jk {
			case 0:
				return s.derive(f.InnerJoin(g, key))
			case 1:
				return s.derive(f.LeftJoin(g, key))
			case 2:
				return s.derive(f.RightJoin(g, key))
			default:
				return s.derive(f.OuterJoin(g, key))
			}
		})
	case "add":
		u := r.Intn(len(s.pool))
		g := s.pool[u]
		hasFill := r.Bool()
		fill := r.Cell()
		e.Tok("add")
		e.Int(t)
		e.Int(u)
		e.Bool(hasFill)
		if hasFill {
			e.Cell(fill)
		}
		status, _ = guard(func() error {
			if hasFill {
				return s.derive(f.Add(g, fill))
			}
			return s.derive(f.Add(g))
		})
	case "applycol", "applyrow":
		tag := r.Intn(8)
		if kind == "applyrow" {
			tag = r.Intn(5)
		} else if s.nilTag {
			tag = 4
		}
		e.Tok(kind)
		e.Int(t)
		e.Int(tag)
		status, _ = guard(func() error {
			axis := 0
			if kind == "applyrow" {
				axis = 1
			}
			res, err := f.Apply(applyFn(tag), axis)
			if err != nil {
				return err
			}
			df, ok := res.(*DF)
			if !ok {
				return fmt.Errorf("Apply returned %T", res)
			}
			return s.derive(df, nil)
		})
	case "describe":
		e.Tok("describe")
		e.Int(t)
		status, _ = guard(func() error { return s.derive(f.Describe()) })
	case "resample":
		col := s.r.NameFor(f, s.names)
		for k, c := range f.Columns {
			if len(c.Data) > 0 {
				if _, ok := c.Data[0].(interface{ Unix() int64 }); ok && r.Chance(80) {
					col = k
				}
			}
		}
		if _, ok := f.Columns["ts"]; ok && r.Chance(60) {
			col = "ts"
		}
		freq := Pick(r, []string{"Y", "M", "D", "H", "T", "S"})
		if bad && r.Chance(40) {
			freq = Pick(r, []string{"Q", "", "y", "W", "0T", "0D", "00H", "15T", "1D", "-1T", "2"})
		}
		agg := r.Intn(4)
		e.Tok("resample")
		e.Int(t)
		e.Str(col)
		e.Str(freq)
		e.Int(agg)
		status, _ = guard(func() error { return s.derive(f.Resample(col, freq, aggFn(agg))) })
	case "group":
		list := r.Bool()
		var keys []string
		if list {
			keys = s.colList(f, 2, bad)
		} else {
			keys = []string{s.r.NameFor(f, s.names)}
			if ks := keysOf(f); len(ks) >= 2 && r.Chance(8) {
				keys = []string{ks[0] + Pick(r, []string{",", ", ", "|"}) + ks[1]} // names no column, though its parts do
			}
		}
		agg := r.Intn(3)
		cols := s.colList(f, 2, bad)
		e.Tok("group")
		e.Int(t)
		e.Bool(list)
		e.Strs(keys)
		e.Int(agg)
		e.Strs(cols)
		status, _ = guard(func() error {
			var g *dataframe.GroupedDataFrame
			if list {
				g = f.Groupby(keys)
			} else {
				g = f.Groupby(keys[0])
			}
			switch agg {
			case 0:
				return s.derive(g.Sum(cols...))
			case 1:
				return s.derive(g.Mean(cols...))
			default:
				return s.derive(g.Count(cols...))
			}
		})
	case "appendrow":
		row := map[string]any{}
		for _, k := range keysOf(f) {
			if r.Chance(80) {
				row[k] = s.anyCell()
			}
		}
		if r.Chance(25) {
			row[Pick(r, s.names)] = s.anyCell()
		}
		if r.Chance(8) {
			// several NEW columns at once, one of them with the empty name (a legal name): all of them are created,
			// or — should the row be refused — none
			for _, nm := range []string{"", "n1", "n2", "n3", "n4"}[:r.Range(2, 5)] {
				row[nm] = s.anyCell()
			}
		}
		e.Tok("appendrow")
		e.Int(t)
		e.Row(row)
		// the receiver of AppendRow is irrelevant to its contract: the row goes into the frame passed as argument
		recv := f
		if r.Chance(40) {
			recv = s.pool[r.Intn(len(s.pool))]
		}
		status, _ = guard(func() error { return recv.AppendRow(f, row) })
	case "droprow":
		i := r.Range(0, max(n-1, 0))
		if bad {
			i = r.BoundaryInt(n)
		}
		e.Tok("droprow")
		e.Int(t)
		e.Int(i)
		status, _ = guard(func() error { return f.DropRow(i) })
	case "fillna":
		v := s.anyCell()
		if s.nilFill && len(s.script) > 0 {
			v = nil // "all fill values": nil replaces nil, the frame still has its gaps
		}
		if s.mode == "c15" && r.Chance(30) {
			v = Pick(r, []any{0, -1, 7, int64(0), 0.0, "", false}) // the fill values people use; the kind given is the kind stored
		}
		e.Tok("fillna")
		e.Int(t)
		e.Cell(v)
		status, _ = guard(func() error { f.FillNa(v); return nil })
	case "dropna":
		e.Tok("dropna")
		e.Int(t)
		status, _ = guard(func() error { return f.DropNa() })
	case "astype":
		col := s.r.NameFor(f, s.names)
		ty := Pick(r, []string{"int", "float64", "string", "string"})
		if bad && r.Chance(40) {
			ty = Pick(r, []string{"bogus", "", "Int", "float32"})
		}
		e.Tok("astype")
		e.Int(t)
		e.Str(col)
		e.Str(ty)
		status, _ = guard(func() error { return f.Astype(col, ty) })
	case "rename":
		a, b := s.r.NameFor(f, s.names), s.r.NameFor(f, s.names)
		if r.Chance(60) {
			b = Pick(r, s.names)
		}
		e.Tok("rename")
		e.Int(t)
		e.Str(a)
		e.Str(b)
		status, _ = guard(func() error { return f.RenameColumn(a, b) })
	case "addcol":
		name := Pick(r, s.names)
		ln := n
		if f.Ncols() == 0 {
			ln = r.SmallN()
		}
		data := r.Column(ln, r.Kind())
		e.Tok("addcol")
		e.Int(t)
		e.Str(name)
		e.Cells(data)
		status, _ = guard(func() error { return f.AddColumn(&dataframe.Column[any]{Name: name, Data: data}) })
	case "dropcol":
		name := s.r.NameFor(f, s.names)
		e.Tok("dropcol")
		e.Int(t)
		e.Str(name)
		status, _ = guard(func() error { return f.DropColumn(name) })
	case "setcell", "setnil":
		ks := keysOf(f)
		if len(ks) == 0 || n == 0 {
			e.Tok("dropna")
			e.Int(t)
			status, _ = guard(func() error { return f.DropNa() })
			break
		}
		name := Pick(r, ks)
		i := r.Intn(n)
		v := s.anyCell()
		if kind == "setnil" {
			v = nil
		}
		e.Tok("setcell")
		e.Int(t)
		e.Str(name)
		e.Int(i)
		e.Cell(v)
		status, _ = guard(func() error { f.Columns[name].Data[i] = v; return nil })
	case "adddt":
		col := s.r.NameFor(f, s.names)
		layout := Pick(r, []string{"2006-01-02", "2006-01-02 15:04:05", "2006-01-02", "2006-01-02 15:04:05", time.RFC3339, "January 2, 2006"})
		if bad && r.Chance(30) {
			layout = Pick(r, []string{"%Y-%m-%", "2006-01-02 %", "%", "%Y-%m-%d", ""})
		} else if len(s.dtHint) > 0 && r.Chance(60) {
			hs := make([]string, 0, len(s.dtHint))
			for k := range s.dtHint {
				hs = append(hs, k)
			}
			sort.Strings(hs)
			col = Pick(r, hs)
			layout = s.dtHint[col]
		}
		if c, ok := f.Columns[col]; ok {
			for _, v := range c.Data {
				if sv, ok := v.(string); ok {
					e.NoteTimeParse(layout, sv)
				}
			}
		}
		e.Tok("adddt")
		e.Int(t)
		e.Str(col)
		e.Str(layout)
		status, _ = guard(func() error { return f.AddDatetimeIndex(col, layout) })
	}
	e.Tok("R", status)
	if s.extra != nil {
		s.extra()
	}
	s.dump()
}

// csvRoundTrip: ToCSVWriter then FromCSVReader; the imported frame joins the pool (CSV import inside histories)
func (s *seqState) csvRoundTrip(t int, f *DF) {
	e := s.e
	var buf bytes.Buffer
	var back *DF
	status, _ := guard(func() error {
		if err := f.ToCSVWriter(&buf); err != nil {
			return err
		}
		var err error
		back, err = dataframe.FromCSVReader(bytes.NewReader(buf.Bytes()))
		return err
	})
	noteFields(e, buf.Bytes())
	e.Tok("CS")
	e.Int(t)
	e.Tok("x" + hex.EncodeToString(buf.Bytes()))
	e.Tok("R", status)
	if status == "ok" && back != nil {
		s.pool = append(s.pool, back)
	}
	s.dump()
}

// query: read-only accessors (Row, ColumnNames, Nrows/Ncols)
func (s *seqState) query(kind string, t int, f *DF, n int, bad bool) {
	r, e := s.r, s.e
	e.Tok("QY", kind)
	e.Int(t)
	switch kind {
	case "qrow":
		i := r.Range(0, max(n-1, 0))
		if bad || r.Chance(25) {
			i = r.BoundaryInt(n)
		}
		e.Int(i)
		var row map[string]any
		status, _ := guard(func() error { var err error; row, err = f.Row(i); return err })
		e.Tok("R", status)
		if status == "ok" {
			e.Row(row)
		}
	case "qnames":
		var names []string
		status, _ := guard(func() error { names = f.ColumnNames(); return nil })
		e.Tok("R", status)
		if status == "ok" {
			e.Strs(names)
		}
	case "qshape":
		var nr, nc int
		status, _ := guard(func() error { nr, nc = f.Nrows(), f.Ncols(); return nil })
		e.Tok("R", status)
		if status == "ok" {
			e.Int(nr)
			e.Int(nc)
		}
	}
	s.dump()
}

// genSeq writes one history.
func genSeq(r *Rng, mode string, steps int) *Enc {
	e := NewEnc()
	names := append([]string{"k"}, plainNames...)
	if r.Chance(30) {
		names = colNames
	}
	s := &seqState{r: r, e: e, mode: mode, names: names}
	switch mode {
	case "c03":
		s.kinds = []string{"join", "join", "join", "join", "fillna", "setcell"}
		steps = r.Range(1, 4)
		keyAlpha := []any{nil, 1, 2, int64(1), 1.0, "1", "a", true, 3, "b"}
		if r.Chance(6) {
			// integer keys that float64 cannot tell apart
			keyAlpha = []any{int64(1) << 53, int64(1)<<53 + 1, uint64(math.MaxUint64), uint64(math.MaxUint64 - 1), int64(1)<<53 + 2, nil}
		}
		kn := Pick(r, []string{"k", "k", "k", "k", "city, state", "a,b", " k", "k|j"})
		mk := func(payload []string) *DF {
			n := r.SmallN()
			if r.Chance(10) {
				n = r.Range(9, 30)
			}
			df := dataframe.NewDataFrame()
			kd := make([]any, n)
			for i := range kd {
				kd[i] = Pick(r, keyAlpha[:r.Range(2, len(keyAlpha))])
			}
			if !r.Chance(5) {
				df.Columns[kn] = &dataframe.Column[any]{Name: kn, Data: kd}
			}
			for _, p := range payload[:r.Range(0, len(payload))] {
				df.Columns[p] = &dataframe.Column[any]{Name: p, Data: r.Column(n, r.Kind())}
			}
			return df
		}
		left, right := []string{"a", "b", "l"}, []string{"c", "d", "r"}
		if r.Chance(12) {
			right = []string{"a", "d"}
		}
		s.pool = []*DF{mk(left), mk(right)}
		if r.Intn(60) == 0 {
			// both frames long, keys all int, already in ascending order, with repeats on both sides
			mkSorted := func(pay string) *DF {
				m := r.Range(64, 80)
				kd, pd := make([]any, m), make([]any, m)
				v := 0
				for i := range kd {
					if !r.Chance(35) {
						v += r.Range(1, 2)
					}
					kd[i], pd[i] = v, i
				}
				df := dataframe.NewDataFrame()
				df.Columns[kn] = &dataframe.Column[any]{Name: kn, Data: kd}
				df.Columns[pay] = &dataframe.Column[any]{Name: pay, Data: pd}
				return df
			}
			s.pool = []*DF{mkSorted("l"), mkSorted("r")}
			s.kinds = []string{"join"}
			steps = 1
		}
		s.names = []string{kn, "a", "c", "zz"}
		s.joinKey = kn
	case "c06":
		s.kinds = []string{"sort", "sort", "sort", "fillna"}
		steps = r.Range(1, 3)
		if r.Chance(12) {
			// sort, edit the RESULT in place, ask for the very same sort of the result again
			s.script = []string{"sort", Pick(r, []string{"fillna", "setcell", "fillna"}), "resort"}
			steps = 3
		}
		n := r.SmallN()
		if r.Chance(35) {
			n = r.Range(9, 40)
		}
		if r.Chance(25) {
			n = 2 // two rows: sort.Sort reveals Less(1,0) exactly
		}
		df := dataframe.NewDataFrame()
		for _, c := range []string{"a", "b", "c"}[:r.Range(1, 3)] {
			k := Pick(r, []colKind{kInt, kInt, kFloat, kStr, kNumStr, kWide, kBool, kTime, kMixed})
			d := r.Column(n, k)
			if r.Chance(8) {
				// unsigned values at and above 2^63, all exactly representable (and distinct) as float64
				big := []any{uint64(1) << 63, uint64(1)<<63 + 1<<11, uint64(1)<<63 + 1<<12, uint64(1) << 62, uint64(3), uint(1) << 63, nil}
				for i := range d {
					d[i] = Pick(r, big)
				}
			}
			if r.Chance(8) {
				// distinct floats closer to each other than any plausible tolerance: still ordered exactly
				near := []any{4.7e-10, 1e-12, 6.8e-10, 2.2e-11, 0.0, -3e-10, 1.0, 1.0 + 1.0/(1<<40), 1.0 - 1.0/(1<<41), 1.0 + 1.0/(1<<39), nil}
				for i := range d {
					d[i] = Pick(r, near)
				}
			}
			if r.Chance(6) {
				for i := range d {
					d[i] = Pick(r, []any{"1.5", "1.50", "7", "007", "100", "1e2", "7.0", nil}) // equal numbers, different spellings: ties
				}
			} else if r.Chance(6) {
				for i := range d {
					d[i] = Pick(r, []any{".5", "0.25", ".75", "0.1", "-.5", "1", nil})
				}
			} else if r.Chance(6) {
				for i := range d {
					d[i] = Pick(r, []any{int64(9007199254740993), int64(1152921504606846977), int64(42), int64(10000000000000001), int64(-9007199254740995), nil})
				}
			}
			if r.Chance(50) { // few distinct values: many ties
				for i := range d {
					d[i] = d[r.Intn(min(3, n))]
				}
			}
			df.Columns[c] = &dataframe.Column[any]{Name: c, Data: d}
		}
		if r.Chance(8) && n > 0 {
			// a column whose name is another column's name with a leading '-'
			if _, ok := df.Columns["a"]; ok {
				df.Columns["-a"] = &dataframe.Column[any]{Name: "-a", Data: r.Column(n, Pick(r, []colKind{kInt, kFloat, kStr}))}
			}
		}
		s.pool = []*DF{df}
		s.names = []string{"a", "b", "c", "zz", "-a"}
	case "c07":
		s.kinds = []string{"dedup", "dedupin", "dedup", "dedupin", "setcell", "fillna"}
		steps = r.Range(1, 3)
		n := r.SmallN() + r.Intn(6)
		df := dataframe.NewDataFrame()
		colAlpha := [][]any{
			{"x|b:y", "x", "y|b:z", "z", "nil", nil, "<nil>", "", "a", "a|", "1", 1},
			{1, 2, int64(1), 1.0, "1", nil, true, "true"},
			{"a", "b", nil}, {0.5, 1.5, float32(0.5), nil, 2},
			{16777216.0, 16777217.0, 0.1, 0.1000000001, float32(0.1), nil, 1e-320},
		}
		c07names := []string{"a", "b", "c"}
		if r.Chance(12) {
			c07names = []string{"index", "b", "c"} // "index" is an ordinary column for DropDuplicates
		} else if r.Chance(10) {
			c07names = []string{Pick(r, []string{"", " "}), "b", "c"} // so is a column whose name is empty or blank (a CSV header cell)
		}
		for _, c := range c07names[:r.Range(1, 3)] {
			alpha := Pick(r, colAlpha)
			alpha = alpha[:r.Range(2, len(alpha))]
			d := make([]any, n)
			for i := range d {
				d[i] = Pick(r, alpha)
			}
			df.Columns[c] = &dataframe.Column[any]{Name: c, Data: d}
		}
		if r.Chance(10) {
			sprinkleNaN(r, df)
		}
		if r.Chance(6) && n >= 2 {
			// two text columns whose values are made of the separators, escapes and type names a row key is built from
			av := []any{"C:\\tmp\\", "C:\\tmp|b:string:p\\", "x\\", "x", "a|b", "\\|"}
			bv := []any{"p|b:string:q", "q", "|b:string:q", "x", "string:1:q", "\\"}
			a, b := make([]any, n), make([]any, n)
			for i := range a {
				a[i], b[i] = Pick(r, av[:r.Range(2, len(av))]), Pick(r, bv[:r.Range(2, len(bv))])
			}
			df = dataframe.NewDataFrame()
			df.Columns["a"] = &dataframe.Column[any]{Name: "a", Data: a}
			df.Columns["b"] = &dataframe.Column[any]{Name: "b", Data: b}
		}
		s.pool = []*DF{df}
		s.names = []string{"a", "b", "c", "zz", "index"}
	case "c08":
		s.kinds = []string{"head", "tail", "rowslice", "filter", "iloc", "loc", "multiselect", "droprow", "dropcol", "qrow", "qnames", "qshape"}
		steps = r.Range(1, 4)
		n := r.SmallN() + r.Intn(5)
		df := r.Frame(n, r.Range(0, 4), names)
		if df.Ncols() > 0 && r.Chance(50) {
			df.Columns["index"] = &dataframe.Column[any]{Name: "index", Data: r.Column(n, Pick(r, []colKind{kInt, kStr, kMixed}))}
			if n >= 2 && r.Chance(25) {
				// a positional index (0,1,2,…) as a stacked frame has it: the positions, repeated with period k
				k := r.Range(1, n)
				d := make([]any, n)
				for i := range d {
					d[i] = i % k
				}
				df.Columns["index"].Data = d
			}
		}
		if r.Chance(12) {
			sprinkleNaN(r, df)
		}
		s.pool = []*DF{df}
	case "c15":
		s.kinds = []string{"fillna", "dropna", "astype", "astype", "adddt"}
		steps = r.Range(1, 3)
		n := r.SmallN() + r.Intn(5)
		if r.Chance(1) {
			// a frame beyond typical chunking thresholds (1024, 2048)
			n = Pick(r, []int{1025, 1100, 2049, 2100}) + r.Intn(7)
			s.kinds = []string{"dropna", "fillna"}
			steps = 1
		}
		df := dataframe.NewDataFrame()
		for _, c := range []string{"a", "b", "c", "d"}[:r.Range(1, 4)] {
			var d []any
			switch Pick(r, []int{0, 1, 2, 2, 3, 4, 5}) {
			case 0: // floats for Astype int, incl. negative fractions and large values
				d = make([]any, n)
				for i := range d {
					d[i] = Pick(r, []float64{0, 1, -0.5, 0.5, 2.9, -2.9, 1e15, 4611686018427387904.0 / 2, -7.99,
						math.Copysign(0, -1), 0, 28.999999999999996, 0.9999999999999999, -2.9999999999999996})
					if r.Chance(12) {
						d[i] = nil // a float column with gaps
					}
				}
			case 1:
				d = r.Column(n, kInt)
			case 3: // time cells, among them the zero time (a value, not a missing cell) and nil
				d = r.Column(n, kTime)
				for i := range d {
					if r.Chance(25) {
						d[i] = time.Time{}
					} else if r.Chance(15) {
						d[i] = nil
					}
				}
			case 2: // date strings
				d = make([]any, n)
				// one family of texts per column (so that a whole column can be parsable under one layout); the last
				// two families contain values SHORTER than their variable-width layout (RFC3339 with Z, month names)
				fams := [][]string{
					{"2020-01-02", "1999-12-31", "2021-02-30", "2020-01-02 03:04:05", "x"},
					{"2020-01-02", "1999-12-31", "2024-02-29"},
					{"2020-01-02", "1999-12-31", "2021-02-30", "2023-04-31", "2023-02-29"},
					{"2020-01-02 03:04:05", "1999-12-31 23:59:59"},
					{"2024-02-29T12:30:00Z", "2024-02-29T12:30:00+02:00", "1999-12-31T23:59:59Z", "2024-02-29T12:30:00.5Z"},
					{"May 5, 2024", "September 15, 2023", "January 2, 2006", "May 05, 2024"},
					{"2024-01-05", "2024-01-06 ", " 2024-01-07", "2024-01-08"},
					{"2024-01-05", "2024-01-06 ", "2024-01-08"},
					{"2020-01-02 03:04:05.5", "2020-01-02 03:04:05", "2020-01-02 03:04:05.250", "x"},
					{"2020-01-02 03:04:05.5", "1999-12-31 23:59:59.999", "2020-01-02 03:04:05"},
				}
				fi := r.Intn(len(fams))
				fam := fams[fi]
				if s.dtHint == nil {
					s.dtHint = map[string]string{}
				}
				// the layout this family was written for (AddDatetimeIndex is then asked for it most of the time)
				s.dtHint[c] = []string{"2006-01-02", "2006-01-02", "2006-01-02", "2006-01-02 15:04:05", time.RFC3339, "January 2, 2006",
					"2006-01-02", "2006-01-02", "2006-01-02 15:04:05", "2006-01-02 15:04:05"}[fi]
				for i := range d {
					d[i] = Pick(r, fam)
					if r.Chance(6) {
						d[i] = nil
					}
				}
			default:
				d = r.Column(n, r.Kind())
			}
			// without nil half of the time, and with one odd cell at a chosen position
			if r.Bool() {
				for i := range d {
					if d[i] == nil {
						d[i] = d[(i+1)%len(d)]
					}
				}
			}
			if n > 0 && r.Chance(30) {
				d[Pick(r, []int{0, n / 2, n - 1})] = r.Cell()
			}
			df.Columns[c] = &dataframe.Column[any]{Name: c, Data: d}
		}
		if r.Chance(8) {
			sprinkleNaN(r, df) // NaN is a value, not a missing cell: FillNa and DropNa leave it alone
			s.kinds = []string{"fillna", "dropna", "dropna"}
		}
		s.pool = []*DF{df}
		s.names = []string{"a", "b", "c", "d", "zz"}
	case "c19":
		// Shift, followed by in-place edits of either frame: "the source is unchanged, Shift(0) is a copy"
		s.kinds = []string{"shift", "shift", "shift", "setcell", "fillna", "droprow"}
		steps = r.Range(1, 5)
		s.pool = []*DF{r.Frame(r.SmallN()+r.Intn(4), r.Range(0, 3), names)}
		if r.Chance(12) {
			sprinkleNaN(r, s.pool[0])
		}
		if r.Intn(120) == 0 {
			// a long single-column frame beyond typical parallelisation thresholds (4096, 16384), length not a multiple of 8
			n := Pick(r, []int{4096, 16384}) + 1 + 2*r.Intn(10)
			d := make([]any, n)
			for i := range d {
				d[i] = i
			}
			big := dataframe.NewDataFrame()
			big.Columns["a"] = &dataframe.Column[any]{Name: "a", Data: d}
			s.pool = []*DF{big}
			s.kinds = []string{"shift"}
			steps = 1
		}
	default:
		npool := r.Range(1, 3)
		for i := 0; i < npool; i++ {
			f := r.Frame(r.SmallN(), r.Range(0, 4), names)
			if r.Chance(50) && f.Ncols() > 0 {
				// a key column with few distinct values so that joins and groups match
				n := f.Nrows()
				f.Columns["k"] = &dataframe.Column[any]{Name: "k", Data: r.Column(n, kInt)}
			}
			if r.Chance(15) {
				n := f.Nrows()
				if f.Ncols() == 0 {
					n = r.SmallN()
				}
				f.Columns["t"] = &dataframe.Column[any]{Name: "t", Data: r.Column(n, kTime)}
			}
			if r.Chance(20) && f.Ncols() > 0 {
				n := f.Nrows()
				f.Columns["index"] = &dataframe.Column[any]{Name: "index", Data: r.Column(n, kInt)}
			}
			if r.Chance(8) && f.Ncols() > 0 {
				// timestamps as TEXT: a time-series helper given this column must refuse it and leave it as it is
				n := f.Nrows()
				d := make([]any, n)
				for i := range d {
					d[i] = Pick(r, []string{"2024-02-29T12:30:00Z", "2024-03-01T00:00:00Z", "2023-12-31T23:59:59+02:00"})
				}
				f.Columns["ts"] = &dataframe.Column[any]{Name: "ts", Data: d}
			}
			s.pool = append(s.pool, f)
		}
	}
	// rare large or wide frames, with the operations whose implementation might treat them differently
	switch {
	case mode == "c02" && r.Intn(35) == 0:
		s.pool = []*DF{bigFrame(r, Pick(r, []int{2100, 2500, 3000}), r.Range(1, 2))}
		s.kinds = []string{"head", "tail", "head", "tail", "rowslice", "setcell", "fillna", "droprow", "shift"}
		steps = r.Range(3, 4)
	case mode == "c02" && r.Intn(12) == 0:
		// a frame whose columns have spare capacity (a row was dropped or appended in place), shifted, then the
		// source or the result edited in place
		s.script = []string{Pick(r, []string{"droprow", "appendrow"}), "shift", Pick(r, []string{"setcell", "fillna", "appendrow"})}
		s.negShift = r.Chance(70)
		if r.Chance(30) {
			// column-wise Apply with a callback that gives up (returns nil) on a column starting with nil, then an edit
			s.script = []string{"applycol", Pick(r, []string{"setcell", "fillna", "droprow"})}
			s.nilTag = true
			last := s.pool[len(s.pool)-1]
			if ks := keysOf(last); len(ks) > 0 {
				if c := last.Columns[Pick(r, ks)]; len(c.Data) > 0 {
					c.Data[0] = nil
				}
			}
		}
		if steps < 3 {
			steps = 3
		}
	case (mode == "c08" || mode == "c19") && r.Intn(12) == 0:
		// the frame is looked at, then a column is renamed (the column count stays), then it is used again: anything
		// remembered from the first look must not survive the rename
		last := map[string][]string{"c08": {"iloc", "multiselect", "qnames", "qrow"}, "c19": {"shift"}}[mode]
		s.script = []string{Pick(r, []string{"qnames", "qrow", "qshape", last[0]}), "rename", Pick(r, last)}
		if mode == "c08" && r.Chance(40) {
			// select, edit the selection in place, then read the SOURCE: its rows are what they were
			s.script = []string{Pick(r, []string{"multiselect", "multiselect", "iloc", "head", "filter"}),
				Pick(r, []string{"droprow", "fillna", "appendrow", "dropna"}), Pick(r, []string{"qrow@0", "qshape@0", "qrow@0"})}
		}
		if steps < 3 {
			steps = 3
		}
	case mode == "c15" && r.Intn(10) == 0:
		// cleaning histories on ONE frame: whatever a first cleaning concluded must not be remembered by the next
		if r.Bool() {
			s.script, s.nilFill = []string{"fillna", "dropna"}, true
		} else {
			s.script = []string{Pick(r, []string{"dropna", "fillna"}), "setnil", Pick(r, []string{"dropna", "fillna"})}
		}
		if steps < 3 {
			steps = 3
		}
	case mode == "c08" && r.Intn(50) == 0:
		s.pool = []*DF{bigFrame(r, Pick(r, []int{513, 515, 1021, 1027}), r.Range(1, 3))}
		s.kinds = []string{"filter", "filter", "head", "tail", "rowslice", "iloc", "droprow"}
		steps = r.Range(1, 2)
	case mode == "c07" && r.Intn(20) == 0:
		// one class of many identical rows (a counter of small width would wrap), plus a few other rows
		n := Pick(r, []int{257, 513, 258, 300})
		df := dataframe.NewDataFrame()
		a, b := make([]any, n), make([]any, n)
		for i := range a {
			a[i], b[i] = "same", 1
		}
		for k := r.Intn(3); k > 0; k-- {
			i := r.Intn(n)
			a[i], b[i] = "other", r.Intn(2)
		}
		df.Columns["a"] = &dataframe.Column[any]{Name: "a", Data: a}
		df.Columns["b"] = &dataframe.Column[any]{Name: "b", Data: b}
		s.pool = []*DF{df}
		s.kinds = []string{"dedup", "dedupin"}
		steps = 1
	case mode == "c07" && r.Intn(60) == 0:
		// more than 64 columns, rows differing only in one of the LAST columns (by name order)
		df := bigFrame(r, r.Range(3, 6), 70)
		for _, c := range df.Columns {
			for i := range c.Data {
				c.Data[i] = c.Data[0]
			}
		}
		last := df.Columns["z"] // the last name in sorted order (position 69)
		for i := range last.Data {
			last.Data[i] = i % 2
		}
		s.pool = []*DF{df}
		s.kinds = []string{"dedup", "dedupin"}
		steps = 1
	case mode == "c08" && r.Intn(80) == 0:
		// a long history of DropRow on one frame (capacity stays, length shrinks to a fraction of it)
		n := r.Range(80, 130)
		s.pool = []*DF{bigFrame(r, n, 2)}
		s.kinds = []string{"droprow"}
		steps = n - n/5
	case mode == "c19" && r.Intn(60) == 0:
		s.pool = []*DF{bigFrame(r, r.Range(1, 3), Pick(r, []int{33, 40, 100}))}
		s.kinds = []string{"shift"}
		steps = r.Range(1, 2)
	case mode == "c15" && r.Intn(80) == 0:
		s.pool = []*DF{bigFrame(r, Pick(r, []int{513, 1027}), 2)}
		s.kinds = []string{"fillna", "dropna", "astype"}
		steps = r.Range(1, 2)
	case mode == "c06" && r.Intn(80) == 0:
		s.pool = []*DF{bigFrame(r, Pick(r, []int{100, 257, 515}), 2)}
		s.kinds = []string{"sort"}
		steps = 1
	}
	e.Tok("P")
	e.Int(len(s.pool))
	for _, f := range s.pool {
		e.Frame(f)
		s.prev = append(s.prev, e.FrameS(f)+" "+strconv.Itoa(f.Nrows()))
	}
	e.Tok("STEPS")
	e.Int(steps)
	for i := 0; i < steps; i++ {
		s.stepOnce()
	}
	return e
}

// bigFrame: n rows of simple patterned cells (ints with some nils, floats, short text); sizes beyond the chunking,
// pooling and parallelisation thresholds an implementation might introduce (64, 256, 512, 1024, 2048, 4096)
func bigFrame(r *Rng, n, ncols int) *DF {
	df := dataframe.NewDataFrame()
	for j := 0; j < ncols; j++ {
		name := string(rune('a' + j%26))
		if j >= 26 {
			name = fmt.Sprintf("c%03d", j)
		}
		d := make([]any, n)
		for i := range d {
			switch j % 3 {
			case 0:
				d[i] = (i*7 + j) % 11
				if i%13 == 5 {
					d[i] = nil
				}
			case 1:
				d[i] = float64((i*3+j)%17) / 4
			default:
				d[i] = Pick(r, []string{"x", "y", "z", ""})
			}
		}
		df.Columns[name] = &dataframe.Column[any]{Name: name, Data: d}
	}
	return df
}

// sprinkleNaN overwrites a few cells of one column with NaN / -0 / +Inf: cells like any other for the operations that
// only move, select, compare-for-identity or render cells
func sprinkleNaN(r *Rng, df *DF) {
	ks := df.ColumnNames()
	if len(ks) == 0 {
		return
	}
	c := df.Columns[Pick(r, ks)]
	for k := r.Range(1, 3); k > 0 && len(c.Data) > 0; k-- {
		c.Data[r.Intn(len(c.Data))] = Pick(r, []any{math.NaN(), math.NaN(), math.Copysign(0, -1), math.Inf(1), float32(float32(math.NaN()))})
	}
}
