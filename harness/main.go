package main

import (
	"bufio"
	"flag"
	"fmt"
	"os"
)

func main() {
	engine := flag.String("engine", "seq", "engine / property generator")
	mode := flag.String("mode", "", "generator mode")
	seed := flag.Uint64("seed", 1, "PRNG seed")
	n := flag.Int("n", 100, "number of cases")
	only := flag.Int("only", -1, "generate only this case index")
	start := flag.Int("start", 0, "first case index (shards of one run use disjoint index ranges)")
	out := flag.String("out", "", "output file for protocol lines")
	tier := flag.String("tier", "quick", "quick|thorough")
	flag.Parse()

	// goframe's Apply prints to stdout: keep the protocol on its own file and silence stdout
	f, err := os.Create(*out)
	if err != nil {
		fmt.Fprintln(os.Stderr, "cannot create output:", err)
		os.Exit(2)
	}
	w := bufio.NewWriterSize(f, 1<<20)
	devnull, _ := os.OpenFile(os.DevNull, os.O_WRONLY, 0)
	os.Stdout = devnull

	plotDir = *out + ".plots"
	if *engine == "plot" {
		os.MkdirAll(plotDir, 0o755)
		defer os.RemoveAll(plotDir)
	}
	if *engine == "csv" {
		csvDir = *out + ".files"
		os.MkdirAll(csvDir, 0o755)
		defer os.RemoveAll(csvDir)
	}
	root := NewRng(*seed)
	run := func(i int) {
		r := root.Fork(i)
		id := fmt.Sprintf("%s:%d:%d", *engine, *seed, i)
		for _, line := range genCase(*engine, *mode, *tier, r, id, i) {
			w.WriteString(line)
			w.WriteByte('\n')
			if hangDetected || (len(line) > 7 && line[len(line)-6:] == "R hang") {
				// a call that never returns keeps its goroutine: stop here, the verdict is already decided
				w.Flush()
				f.Close()
				os.RemoveAll(plotDir)
				os.Exit(0)
			}
		}
	}
	if *only >= 0 {
		run(*only)
	} else {
		for i := *start; i < *start+*n; i++ {
			run(i)
		}
	}
	w.Flush()
	f.Close()
}

// hangDetected is set by an engine when a goframe call did not return before its deadline: the goroutine
// cannot be reclaimed, the verdict is already decided, so the run stops after writing that case.
var hangDetected bool

func genCase(engine, mode, tier string, r *Rng, id string, i int) []string {
	switch engine {
	case "seq":
		steps := r.Range(5, 25)
		if tier == "thorough" {
			steps = r.Range(5, 60)
		}
		e := genSeq(r, mode, steps)
		return []string{e.Line(id, "SEQ")}
	case "agg":
		return []string{genAgg(r, tier).Line(id, "AGG")}
	case "rsm":
		return []string{genRsm(r, tier).Line(id, "RSM")}
	case "apl":
		return []string{genApl(r, tier).Line(id, "APL")}
	case "csv":
		switch mode {
		case "small":
			return []string{genCsvSmall(i).Line(id, "CSV")}
		case "rt":
			return []string{genCsvRoundTrip(r).Line(id, "CSV")}
		default:
			return []string{genCsvImport(r).Line(id, "CSV")}
		}
	case "sqlw":
		return genSqlw(r, id, mode)
	case "qid":
		return []string{genQid(r, i, mode).Line(id, "QID")}
	case "sqlr":
		return []string{genSqlr(r).Line(id, "SQLR")}
	case "plot":
		return []string{genPlot(r).Line(id, "PLOT")}
	case "grp":
		return []string{genGrp(r, tier).Line(id, "GRP")}
	case "misc":
		return []string{genMisc(r).Line(id, "MISC")}
	}
	fmt.Fprintln(os.Stderr, "unknown engine", engine)
	os.Exit(2)
	return nil
}
