package main

// sqlw engine: ToSQL / ToSQLContext / ToSQLTx / ToSQLTxContext against the recording driver
// (C11 final table, C12 fault at every call, C13 identifiers).

import (
	"context"
	"database/sql"
	"math"
	"strings"
	"time"

	"github.com/kishyassin/goframe/dataframe"
)

var sqlNameAlpha = []string{"t", "users", "a", "b", "c", "a\"b", "a`b", "x\"; DROP TABLE t; --", "we ird", "q'q", "back\\slash",
	"semi;colon", "dash--dash", "a\x1fb", "q\"\x1f", "`\x1fz", "NULL VALUES (", "a VALUES b", "date", "text", "Sepal.Length", "a.b", ".x", "x.", "a.b.c", " lead", "trail ", "nb\u00a0", "\tt", " t", "t ", " ", "", "growth%", "margin %d", "100%s %v", "/*c*/", "t */ x", "*/", "/*", "a/*b", "-- c", "\"", "`", "\"\"", "é", "A", "col 1", "sel\"ect\"", "a\"\"b", "$1", "?",
	"abcdefghijklmnopqrstuvwxyzabcdefghijklmnopqrstuvwxyzabcdefghij\"z", "abcdefghijklmnopqrstuvwxyzabcdefghijklmnopqrstuvwxyzabcdefghijk`z"}

type sqlwScenario struct {
	df        *dataframe.DataFrame
	table     string
	entry     int
	hasOpts   bool
	decoy     bool // a second option struct is passed as well: only the first one counts
	opts      dataframe.SQLWriteOption
	exists    bool
	typeMapKV [][2]string
}

func genSqlwScenario(r *Rng, names bool) sqlwScenario {
	var sc sqlwScenario
	n := r.SmallN()
	if r.Chance(30) {
		n = r.Range(4, 25)
	}
	ncols := r.Range(1, 4)
	if r.Chance(4) {
		ncols = 0
	}
	wide := !names && r.Intn(300) == 0
	if wide {
		// wide AND long: rows x columns beyond the bound-parameter limits of real drivers (32766, 65535)
		ncols, n = Pick(r, []int{34, 40}), Pick(r, []int{1000, 1200})
	}
	df := dataframe.NewDataFrame()
	pool := []string{"a", "b", "c", "d", "e"}
	if wide {
		pool = nil
		for j := 0; j < ncols; j++ {
			pool = append(pool, "c"+itoa(100+j))
		}
	}
	if (names || r.Chance(25)) && !wide {
		pool = sqlNameAlpha
	}
	perm := r.Perm(len(pool))
	for j := 0; j < ncols; j++ {
		k := Pick(r, []colKind{kInt, kFloat, kStr, kBool, kTime, kWide, kMixed})
		if wide {
			k = kInt
		}
		d := r.Column(n, k)
		if r.Chance(10) {
			for i := range d {
				d[i] = nil
			}
		}
		if k == kFloat && n > 0 && r.Chance(15) {
			d[r.Intn(n)] = Pick(r, []any{math.NaN(), math.Inf(1), math.Copysign(0, -1), float32(math.NaN())})
		}
		if k == kInt && n > 0 && r.Chance(15) {
			d[r.Intn(n)] = Pick(r, []any{int64(9007199254740993), uint64(18446744073709551615) >> 1, int64(-9007199254740995), int(1234567890123456789)})
		}
		if k == kTime && n > 0 && r.Chance(40) {
			d[r.Intn(n)] = time.Time{} // the zero time is a value, not NULL
		}
		df.Columns[pool[perm[j]]] = &dataframe.Column[any]{Name: pool[perm[j]], Data: d}
	}
	sc.df = df
	sc.table = "t"
	if names || r.Chance(25) {
		sc.table = Pick(r, sqlNameAlpha)
	}
	sc.entry = r.Intn(4)
	sc.hasOpts = !r.Chance(4)
	sc.decoy = r.Chance(6)
	sc.opts.Dialect = Pick(r, []string{"sqlite", "postgres", "mysql", "sqlite3", "postgresql", "pq", "SQLite", "MySQL", "PostgreSQL"})
	if r.Chance(5) {
		sc.opts.Dialect = Pick(r, []string{"", "oracle", "mssql"})
	}
	sc.opts.IfExists = Pick(r, []string{"", "fail", "replace", "append"})
	if r.Chance(4) {
		sc.opts.IfExists = Pick(r, []string{"Replace", "drop", " "})
	}
	sc.opts.BatchSize = Pick(r, []int{0, 1, 2, 3, n, n + 1, n + 2, 1000, max(n-1, 1), 7})
	if r.Chance(4) {
		sc.opts.BatchSize = Pick(r, []int{-1, -1000, 1 << 62, math.MaxInt, math.MaxInt - 1})
	}
	if wide {
		sc.opts.BatchSize = Pick(r, []int{0, 1000, n, 900})
	}
	if !wide && !names && r.Intn(150) == 0 {
		// long and sparse: a column that is nil for its first 1000+ rows and holds non-text values afterwards
		m := Pick(r, []int{1100, 1500})
		d := make([]any, m)
		for i := 1005; i < m; i++ {
			d[i] = Pick(r, []any{i, 2.5, true, time.Date(2020, 1, 1, 0, 0, 0, 0, utc)})
		}
		ids := make([]any, m)
		for i := range ids {
			ids[i] = i
		}
		df = dataframe.NewDataFrame()
		df.Columns["id"] = &dataframe.Column[any]{Name: "id", Data: ids}
		df.Columns["late"] = &dataframe.Column[any]{Name: "late", Data: d}
		sc.df = df
		sc.opts.TypeMap, sc.typeMapKV = nil, nil
		sc.opts.BatchSize = Pick(r, []int{0, 500, 1000})
	}
	if r.Chance(25) && ncols > 0 {
		sc.opts.TypeMap = map[string]string{}
		for _, k := range df.ColumnNames() {
			if r.Bool() {
				v := Pick(r, []string{"VARCHAR(255)", "INTEGER PRIMARY KEY", "NUMERIC(10, 2)", "TEXT", "DATE NOT NULL", "TEXT NOT NULL", "date"})
				if isWord(k) && r.Chance(15) {
					v = k + " TEXT" // a type text that happens to start with the column's own name (type text is the caller's SQL, taken verbatim)
				}
				sc.opts.TypeMap[k] = v
				sc.typeMapKV = append(sc.typeMapKV, [2]string{k, v})
			}
		}
		if r.Chance(20) {
			sc.opts.TypeMap["nosuchcol"] = "TEXT"
			sc.typeMapKV = append(sc.typeMapKV, [2]string{"nosuchcol", "TEXT"})
		}
		if r.Chance(30) {
			// a key that is the QUOTED spelling of a column which has no entry of its own: it names no column
			for _, k := range df.ColumnNames() {
				if _, has := sc.opts.TypeMap[k]; !has {
					q := Pick(r, []string{(&dataframe.SQLiteDialect{}).QuoteIdentifier(k), (&dataframe.MySQLDialect{}).QuoteIdentifier(k)})
					if _, isCol := df.Columns[q]; !isCol {
						sc.opts.TypeMap[q] = "BLOB"
						sc.typeMapKV = append(sc.typeMapKV, [2]string{q, "BLOB"})
					}
					break
				}
			}
		}
	}
	sc.exists = r.Bool()
	return sc
}

// runSqlw executes the scenario with the driver failing call number failAt (-1: none).
func runSqlw(sc sqlwScenario, failAt int) (string, []recCall) {
	return runSqlwCtx(sc, failAt, false)
}

// faultKindNext: the error value the next fault run injects (0: a plain driver error)
var faultKindNext int

// runSqlwNext: no call fails, but Rows.Next of the table-existence query returns an error
func runSqlwNext(sc sqlwScenario) (string, []recCall) {
	nextFailExists = true
	defer func() { nextFailExists = false }()
	return runSqlwCtx(sc, -1, false)
}

// runSqlwCtx: with cancel=true the context is cancelled at call failAt (only the Context entry points)
func runSqlwCtx(sc sqlwScenario, failAt int, cancel bool) (string, []recCall) {
	return runSqlwCtx2(sc, failAt, cancel, false)
}

// runSqlwCtx2: keep=true — the context is cancelled while call failAt is in flight, and that call succeeds
func runSqlwCtx2(sc sqlwScenario, failAt int, cancel, keep bool) (string, []recCall) {
	// the caller's option struct (its TypeMap above all) is reused from export to export: an earlier export of ANOTHER
	// frame with the same column names but other kinds of value, made with the very same options, must leave nothing
	// behind in them that changes this export
	if sc.hasOpts && sc.opts.TypeMap != nil && sc.df != nil {
		warm := dataframe.NewDataFrame()
		for name, c := range sc.df.Columns {
			var cell any = "w"
			for _, v := range c.Data {
				if _, isStr := v.(string); isStr {
					cell = 1.5
				}
				if v != nil {
					break
				}
			}
			warm.Columns[name] = &dataframe.Column[any]{Name: name, Data: []any{cell}}
		}
		wst := &dbState{failAt: -1, faultKind: faultKindNext}
		wdb := openFake(wst)
		guard(func() error { return warm.ToSQL(wdb, sc.table, sc.optList()...) })
		wdb.Close()
	}
	st := &dbState{failAt: -1, exists: sc.exists, faultKind: faultKindNext, cancelKeep: keep}
	ctx, cancelFn := context.WithCancel(context.Background())
	defer cancelFn()
	if cancel {
		st.cancel = cancelFn
	}
	db := openFake(st)
	defer db.Close()
	var tx *sql.Tx
	if sc.entry >= 2 {
		var err error
		tx, err = db.Begin()
		if err != nil {
			return "harness-begin-failed", nil
		}
	}
	st.mu.Lock()
	st.recording = true
	st.failAt = failAt
	st.idx = 0
	st.mu.Unlock()
	call := func() error {
		switch sc.entry {
		case 0:
			if sc.hasOpts {
				return sc.df.ToSQL(db, sc.table, sc.optList()...)
			}
			return sc.df.ToSQL(db, sc.table)
		case 1:
			if sc.hasOpts {
				return sc.df.ToSQLContext(ctx, db, sc.table, sc.optList()...)
			}
			return sc.df.ToSQLContext(ctx, db, sc.table)
		case 2:
			if sc.hasOpts {
				return sc.df.ToSQLTx(tx, sc.table, sc.optList()...)
			}
			return sc.df.ToSQLTx(tx, sc.table)
		default:
			if sc.hasOpts {
				return sc.df.ToSQLTxContext(ctx, tx, sc.table, sc.optList()...)
			}
			return sc.df.ToSQLTxContext(ctx, tx, sc.table)
		}
	}
	done := make(chan string, 1)
	go func() { s, _ := guard(call); done <- s }()
	var status string
	select {
	case status = <-done:
	case <-time.After(10 * time.Second):
		status = "hang"
		hangDetected = true
	}
	if cancel && sc.entry == 1 {
		// database/sql rolls a cancelled transaction back from its own goroutine, possibly after the call
		// returned: wait (bounded) for the driver-level rollback before closing the trace
		for w := 0; w < 2500; w++ {
			st.mu.Lock()
			began, ended := false, false
			for _, c := range st.calls {
				if c.kind == "B" && c.ok {
					began = true
				}
				if c.kind == "RB" || c.kind == "C" {
					ended = true
				}
			}
			st.mu.Unlock()
			if !began || ended {
				break
			}
			time.Sleep(2 * time.Millisecond)
		}
	}
	st.mu.Lock()
	st.recording = false
	calls := append([]recCall{}, st.calls...)
	st.mu.Unlock()
	if tx != nil {
		tx.Rollback()
	}
	return status, calls
}

func emitSqlw(e *Enc, sc sqlwScenario, failAt int, status string, calls []recCall) {
	e.Tok("F")
	e.Frame(sc.df)
	e.Str(sc.table)
	e.Int(sc.entry)
	e.Bool(sc.hasOpts)
	e.Str(sc.opts.IfExists)
	e.Str(sc.opts.Dialect)
	e.Int(sc.opts.BatchSize)
	e.Int(len(sc.typeMapKV))
	for _, kv := range sc.typeMapKV {
		e.Str(kv[0])
		e.Str(kv[1])
	}
	e.Bool(sc.exists)
	e.Int(failAt)
	e.Tok("R", status)
	e.Trace(calls)
}

// genSqlw emits the fault-free run of a scenario followed by one run per fault position.
func genSqlw(r *Rng, id string, mode string) []string {
	sc := genSqlwScenario(r, mode == "names")
	var lines []string
	status, calls := runSqlw(sc, -1)
	e := NewEnc()
	emitSqlw(e, sc, -1, status, calls)
	lines = append(lines, e.Line(id, "SQLW"))
	if mode == "names" && r.Chance(30) {
		// a statement failing must not change how the following statements are written (retries, fall-backs)
		for k := 0; k < len(calls); k++ {
			if calls[k].kind != "E" {
				continue
			}
			st, cs := runSqlw(sc, k)
			e := NewEnc()
			emitSqlw(e, sc, k, st, cs)
			lines = append(lines, e.Line(id+"f"+itoa(k), "SQLW"))
		}
	}
	if mode == "fault" {
		for k := 0; k < len(calls); k++ {
			// the error VALUE of the failing call varies: plain, context-wrapping, bad connection, sql sentinels
			faultKindNext = 0
			if r.Chance(50) {
				faultKindNext = r.Range(1, 7)
			}
			if strings.HasPrefix(calls[k].text, "CREATE") && r.Chance(40) {
				faultKindNext = 7 // a failing CREATE whose message says the table is already there
			}
			st, cs := runSqlw(sc, k)
			faultKindNext = 0
			e := NewEnc()
			emitSqlw(e, sc, k, st, cs)
			lines = append(lines, e.Line(id+"f"+itoa(k), "SQLW"))
		}
		// the existence query succeeds but fetching its row fails (driver.Rows.Next)
		{
			st, cs := runSqlwNext(sc)
			e := NewEnc()
			emitSqlw(e, sc, 1, st, cs)
			e.Tok("NEXTFAIL")
			lines = append(lines, e.Line(id+"n", "SQLW"))
		}
		// cancellation of the context at every call (Context entry points only)
		if sc.entry == 1 || sc.entry == 3 {
			for k := 0; k < len(calls); k++ {
				st, cs := runSqlwCtx(sc, k, true)
				e := NewEnc()
				emitSqlw(e, sc, k, st, cs)
				e.Tok("CANCEL")
				lines = append(lines, e.Line(id+"c"+itoa(k), "SQLW"))
			}
			// cancellation arriving while a call is in flight that nevertheless succeeds (in particular the COMMIT):
			// whatever the call then reports must match what was published
			for k := 0; k < len(calls); k++ {
				st, cs := runSqlwCtx2(sc, k, true, true)
				e := NewEnc()
				emitSqlw(e, sc, k, st, cs)
				e.Tok("CANCEL")
				lines = append(lines, e.Line(id+"k"+itoa(k), "SQLW"))
			}
		}
	}
	return lines
}

func itoa(i int) string {
	if i == 0 {
		return "0"
	}
	s := ""
	for i > 0 {
		s = string(rune('0'+i%10)) + s
		i /= 10
	}
	return s
}

func isWord(s string) bool {
	if s == "" {
		return false
	}
	for _, c := range s {
		if !(c >= 'a' && c <= 'z' || c >= 'A' && c <= 'Z') {
			return false
		}
	}
	return true
}

// optList: the option structs handed to ToSQL* (the first one is the request; anything after it is ignored)
func (sc *sqlwScenario) optList() []dataframe.SQLWriteOption {
	if sc.decoy {
		return []dataframe.SQLWriteOption{sc.opts, {Dialect: "mysql", IfExists: "replace", BatchSize: 1, TypeMap: map[string]string{"a": "BLOB", "b": "BLOB"}}}
	}
	return []dataframe.SQLWriteOption{sc.opts}
}
