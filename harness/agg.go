package main

// agg engine: Series/frame Sum, Mean, Min, Max, Describe and Add (C16).

import (
	"math"

	"github.com/kishyassin/goframe/dataframe"
)

// tiny magnitudes: sums far below any absolute rounding step a "tidy" implementation might apply
var tinyVals = []any{1.5e-10, 2.5e-10, -4e-10, 1e-10, "2e-12", 5e-12, 0.0, 3e-11, "1e-10", -1e-10, 7.5e-300, 1e-300}

var aggTiny bool

func aggValue(r *Rng, nanOK bool) any {
	if aggTiny {
		return Pick(r, tinyVals)
	}
	switch r.Intn(12) {
	case 0:
		return r.Range(-3, 9)
	case 1:
		return int64(r.Range(-3, 9))
	case 2:
		if r.Chance(30) {
			return Pick(r, []float32{0.1, 1234.567, -0.3, 16777217}) // float32 values that are not short decimals in float64
		}
		return float32(r.Range(-6, 6)) / 2
	case 3, 4:
		return float64(r.Range(-12, 12)) / 4
	case 5:
		return Pick(r, []string{"3", "-1.5", "2e1", "0.25", "7", ".5", "+2", "-.25", "1_0", "010", "0017", "-012", "08", "0x10", "1e2"})
	case 6:
		if nanOK {
			return Pick(r, []float64{math.NaN(), math.NaN(), math.Inf(1), math.Inf(-1)})
		}
		return 1.0
	default:
		return float64(r.Range(-3, 9))
	}
}

func genAgg(r *Rng, tier string) *Enc {
	e := NewEnc()
	df := dataframe.NewDataFrame()
	ncols := r.Range(1, 3)
	if r.Chance(3) {
		ncols = 0 // a frame without columns (fresh, or every column dropped): nothing to aggregate, nothing to refuse
	}
	aggTiny = r.Chance(8)
	defer func() { aggTiny = false }()
	n := r.SmallN()
	if r.Chance(30) {
		n = r.Range(4, 12)
	}
	if r.Intn(50) == 0 {
		n = Pick(r, []int{1025, 1027, 2050, 4099, 4096, 4096, 8192, 8192, 1024}) // at and around plausible chunking thresholds
	}
	for _, name := range []string{"a", "b", "stat"}[:ncols] {
		nan := r.Chance(30)
		d := make([]any, n)
		for i := range d {
			d[i] = aggValue(r, nan)
		}
		huge := r.Chance(8)
		if huge {
			// magnitudes near the int64 limit: partial sums are multiples of 2^20 below 2^67, exact in float64
			for i := range d {
				d[i] = Pick(r, []any{int64(4e18), int64(4e18), int64(-4e18), int(4e18), int64(1) << 62, int64(0)})
			}
		}
		if n > 0 && r.Chance(25) {
			// one non-numeric cell (per AsFloat64's table) at a chosen position
			// (texts that merely START like a number are not numbers: "12abc", "1,5", "3 apples", "1.5.2")
			odd := []any{"abc", nil, true, int8(3), uint(2), "", "12abc", "1,5", "3 apples", "1.5.2", "7 ", "0x"}
			if huge {
				odd = []any{"abc", nil, true, ""} // no small numbers next to 4e18: float64 sums must stay exact
			}
			d[Pick(r, []int{0, n / 2, n - 1})] = Pick(r, odd)
		}
		if nan && !huge && n > 0 && r.Chance(50) {
			d[Pick(r, []int{0, n / 2, n - 1})] = math.NaN()
		}
		df.Columns[name] = &dataframe.Column[any]{Name: name, Data: d}
	}
	// the Series objects are created first and, in a fifth of the cases, USED before the recorded calls: every
	// aggregation is evaluated once, then cells are overwritten in place (same arrays, same lengths) — a value
	// cached by the first evaluation must not survive into the recorded one
	names := df.ColumnNames()
	series := map[string]*dataframe.Series{}
	for _, name := range names {
		series[name] = dataframe.NewSeries(name, df.Columns[name].Data)
	}
	if n > 0 && r.Chance(20) {
		guard(func() error {
			for _, name := range names {
				s := series[name]
				s.Sum()
				s.Mean()
				s.Min()
				s.Max()
			}
			df.Sum()
			df.Mean()
			df.Min()
			df.Max()
			df.Describe()
			return nil
		})
		for _, name := range names {
			for k := r.Range(1, 2); k > 0; k-- {
				v := aggValue(r, false)
				if r.Chance(15) {
					v = "abc"
				}
				df.Columns[name].Data[r.Intn(n)] = v
			}
		}
	}
	e.Tok("F")
	e.Frame(df)
	// series level, per column in sorted order
	for _, name := range names {
		s := series[name]
		for ki, f := range []func() (float64, error){s.Sum, s.Mean, s.Min, s.Max} {
			var v float64
			st, _ := guard(func() error { var err error; v, err = f(); return err })
			e.Tok("S")
			e.Int(ki)
			e.Tok(st)
			if st == "ok" {
				e.Cell(v)
			}
		}
	}
	// frame level
	for ki, f := range []func() (map[string]float64, error){df.Sum, df.Mean, df.Min, df.Max} {
		var m map[string]float64
		st, _ := guard(func() error { var err error; m, err = f(); return err })
		e.Tok("FL")
		e.Int(ki)
		e.Tok(st)
		if st == "ok" {
			e.Int(len(m))
			for _, k := range sortedKeys(m) {
				e.Str(k)
				e.Cell(m[k])
			}
		}
	}
	// Describe
	var desc *dataframe.DataFrame
	st, _ := guard(func() error { var err error; desc, err = df.Describe(); return err })
	e.Tok("DESC", st)
	if st == "ok" {
		e.Frame(desc)
	}
	// Add with a second frame of the same names (sometimes not) and independent length
	other := dataframe.NewDataFrame()
	m := r.SmallN()
	if r.Chance(50) {
		m = n
	}
	for _, name := range names {
		nm := name
		if r.Chance(6) {
			nm = name + "x"
		}
		d := make([]any, m)
		for i := range d {
			d[i] = aggValue(r, false)
			if r.Chance(15) {
				d[i] = Pick(r, []any{"abc", "q", nil, true})
			}
		}
		other.Columns[nm] = &dataframe.Column[any]{Name: nm, Data: d}
	}
	if r.Chance(6) {
		other.Columns["extra"] = &dataframe.Column[any]{Name: "extra", Data: make([]any, m)}
	}
	// the left operand of Add: a text/bool-bearing variant of df without NaN
	left := dataframe.NewDataFrame()
	for _, name := range names {
		d := make([]any, n)
		for i := range d {
			d[i] = aggValue(r, false)
			if r.Chance(15) {
				d[i] = Pick(r, []any{"abc", "q", nil, true})
			}
		}
		left.Columns[name] = &dataframe.Column[any]{Name: name, Data: d}
	}
	if r.Chance(6) {
		// operands with the same NUMBER of columns and different names whose comma/pipe/space-joined lists coincide
		sep := Pick(r, []string{",", "|", " ", ";", "\x00", ""})
		ln, rn := []string{"x" + sep + "y", "z"}, []string{"x", "y" + sep + "z"}
		if sep == "" {
			ln, rn = []string{"ab", "c"}, []string{"a", "bc"}
		}
		left, other = dataframe.NewDataFrame(), dataframe.NewDataFrame()
		for j := range ln {
			dl, dr := make([]any, n), make([]any, n)
			for i := 0; i < n; i++ {
				dl[i], dr[i] = aggValue(r, false), aggValue(r, false)
			}
			left.Columns[ln[j]] = &dataframe.Column[any]{Name: ln[j], Data: dl}
			other.Columns[rn[j]] = &dataframe.Column[any]{Name: rn[j], Data: dr}
		}
	}
	if r.Chance(5) {
		// operands with the SAME names, two of which differ only in letter case
		left, other = dataframe.NewDataFrame(), dataframe.NewDataFrame()
		for _, nm := range []string{"x", "X", "y"}[:r.Range(2, 3)] {
			dl, dr := make([]any, n), make([]any, n)
			for i := 0; i < n; i++ {
				dl[i], dr[i] = aggValue(r, false), aggValue(r, false)
			}
			left.Columns[nm] = &dataframe.Column[any]{Name: nm, Data: dl}
			other.Columns[nm] = &dataframe.Column[any]{Name: nm, Data: dr}
		}
	}
	hasFill := r.Bool()
	manyFill := r.Chance(20)
	fill := Pick(r, []any{0, 1.5, "f", nil})
	e.Tok("ADD")
	e.Frame(left)
	e.Frame(other)
	e.Bool(hasFill)
	if hasFill {
		e.Cell(fill)
	}
	var sum *dataframe.DataFrame
	st, _ = guard(func() error {
		var err error
		if hasFill && manyFill {
			sum, err = left.Add(other, fill, 99, "z") // only the first fill value counts
		} else if hasFill {
			sum, err = left.Add(other, fill)
		} else {
			sum, err = left.Add(other)
		}
		return err
	})
	e.Tok("R", st)
	if st == "ok" {
		e.Frame(sum)
	}
	e.Tok("AFTER")
	e.Frame(df)
	e.Frame(left)
	e.Frame(other)
	return e
}
