package main

// Line protocol shared with lean/Driver/Proto.lean.

import (
	"encoding/hex"
	"fmt"
	"math"
	"math/big"
	"sort"
	"strconv"
	"strings"
	"time"

	"github.com/kishyassin/goframe/dataframe"
)

// Enc accumulates the tokens of one case and the oracle table (results of the real
// stdlib functions on the values occurring in the case).
type Enc struct {
	toks   []string
	oracle map[string]string // entry text -> "", deduplicated
	okeys  []string
}

func NewEnc() *Enc { return &Enc{oracle: map[string]string{}} }

func (e *Enc) Tok(s ...string) { e.toks = append(e.toks, s...) }
func (e *Enc) Int(i int)       { e.toks = append(e.toks, strconv.Itoa(i)) }
func (e *Enc) Bool(b bool) {
	if b {
		e.Tok("1")
	} else {
		e.Tok("0")
	}
}
func hx(s string) string   { return "x" + hex.EncodeToString([]byte(s)) }
func (e *Enc) Str(s string) { e.Tok(hx(s)) }
func (e *Enc) Strs(ss []string) {
	e.Int(len(ss))
	for _, s := range ss {
		e.Str(s)
	}
}
func (e *Enc) Ints(is []int) {
	e.Int(len(is))
	for _, i := range is {
		e.Int(i)
	}
}

func (e *Enc) addOracle(entry string) {
	if _, ok := e.oracle[entry]; !ok {
		e.oracle[entry] = ""
		e.okeys = append(e.okeys, entry)
	}
}

func encFloat(w string, f float64) string {
	switch {
	case math.IsNaN(f):
		return "F" + w + ":nan"
	case math.IsInf(f, 1):
		return "F" + w + ":+inf"
	case math.IsInf(f, -1):
		return "F" + w + ":-inf"
	case f == 0 && math.Signbit(f):
		return "F" + w + ":-0"
	case f == 0:
		return "F" + w + ":0:0"
	}
	frac, exp := math.Frexp(f)
	m := int64(frac * (1 << 53))
	ex := exp - 53
	for m%2 == 0 {
		m /= 2
		ex++
	}
	return fmt.Sprintf("F%s:%d:%d", w, m, ex)
}

func encTime(t time.Time) string {
	name, off := t.Zone()
	return fmt.Sprintf("T%d:%d:%d:%d:%d:%d:%d:%d:%d:%s", t.Unix(), t.Nanosecond(), off,
		t.Year(), int(t.Month()), t.Day(), t.Hour(), t.Minute(), t.Second(), hex.EncodeToString([]byte(name)))
}

// cellTok encodes a cell without touching the oracle.
func cellTok(v any) string {
	switch x := v.(type) {
	case nil:
		return "N"
	case int:
		return fmt.Sprintf("I0:%d", x)
	case int8:
		return fmt.Sprintf("I1:%d", x)
	case int16:
		return fmt.Sprintf("I2:%d", x)
	case int32:
		return fmt.Sprintf("I3:%d", x)
	case int64:
		return fmt.Sprintf("I4:%d", x)
	case uint:
		return fmt.Sprintf("I5:%d", x)
	case uint8:
		return fmt.Sprintf("I6:%d", x)
	case uint16:
		return fmt.Sprintf("I7:%d", x)
	case uint32:
		return fmt.Sprintf("I8:%d", x)
	case uint64:
		return fmt.Sprintf("I9:%d", x)
	case float32:
		return encFloat("32", float64(x))
	case float64:
		return encFloat("64", x)
	case string:
		return "S" + hex.EncodeToString([]byte(x))
	case bool:
		if x {
			return "B1"
		}
		return "B0"
	case time.Time:
		return encTime(x)
	default:
		return "U" + hex.EncodeToString([]byte(fmt.Sprintf("%T", v)))
	}
}

// Cell encodes a cell and records what the stdlib says about it.
func (e *Enc) Cell(v any) {
	e.Tok(e.CellS(v))
}

func (e *Enc) CellS(v any) string {
	t := cellTok(v)
	switch x := v.(type) {
	case float32, float64, time.Time:
		e.addOracle("ff " + t + " " + hx(fmt.Sprintf("%v", x)))
	case string:
		e.NoteParse(x)
	}
	return t
}

// NoteParse records strconv.ParseFloat(s, 64).
func (e *Enc) NoteParse(s string) {
	f, err := strconv.ParseFloat(s, 64)
	if err != nil {
		e.addOracle("pf " + hx(s) + " N")
	} else {
		ft := encFloat("64", f)
		e.addOracle("pf " + hx(s) + " " + ft)
		e.addOracle("ff " + ft + " " + hx(fmt.Sprintf("%v", f)))
	}
}

func (e *Enc) NoteTrim(s string) {
	e.addOracle("tr " + hx(s) + " " + hx(strings.TrimSpace(s)))
}

func (e *Enc) NoteTimeParse(layout, s string) {
	t, err := time.Parse(layout, s)
	if err != nil {
		e.addOracle("tp " + hx(layout) + " " + hx(s) + " N")
	} else {
		tt := encTime(t)
		e.addOracle("tp " + hx(layout) + " " + hx(s) + " " + tt)
		e.addOracle("ff " + tt + " " + hx(fmt.Sprintf("%v", t)))
	}
}

func (e *Enc) Cells(vs []any) {
	e.Int(len(vs))
	for _, v := range vs {
		e.Cell(v)
	}
}

// FrameS renders a frame dump: ncols, then per column (sorted by key) key, Name, len, cells.
func (e *Enc) FrameS(df *dataframe.DataFrame) string {
	if df == nil || df.Columns == nil {
		if df == nil {
			return "-1"
		}
		return "0"
	}
	keys := make([]string, 0, len(df.Columns))
	for k := range df.Columns {
		keys = append(keys, k)
	}
	sort.Strings(keys)
	var sb strings.Builder
	sb.WriteString(strconv.Itoa(len(keys)))
	for _, k := range keys {
		c := df.Columns[k]
		if c == nil {
			sb.WriteString(" " + hx(k) + " " + hx("<nil column>") + " 0")
			continue
		}
		sb.WriteString(" " + hx(k) + " " + hx(c.Name) + " " + strconv.Itoa(len(c.Data)))
		for _, v := range c.Data {
			sb.WriteString(" " + e.CellS(v))
		}
	}
	return sb.String()
}

func (e *Enc) Frame(df *dataframe.DataFrame) { e.Tok(e.FrameS(df)) }

func (e *Enc) Row(r map[string]any) {
	keys := make([]string, 0, len(r))
	for k := range r {
		keys = append(keys, k)
	}
	sort.Strings(keys)
	e.Int(len(keys))
	for _, k := range keys {
		e.Str(k)
		e.Cell(r[k])
	}
}

// Line renders "<id> <engine> O <n> entries… <tokens…>".
func (e *Enc) Line(id string, engine string) string {
	var sb strings.Builder
	sb.WriteString(id + " " + engine + " O " + strconv.Itoa(len(e.okeys)))
	for _, k := range e.okeys {
		sb.WriteString(" " + k)
	}
	for _, t := range e.toks {
		sb.WriteString(" " + t)
	}
	return sb.String()
}

var _ = big.NewInt
