package main

// misc engine (C20): the public accessors and helpers no other engine calls — Column.Len/At, Series.Len/At/
// AsFloat64, DataFrame.Select/String, NewColumn/ConvertToAnyColumn/AddTypedColumn, the dialect helpers
// (Placeholder, TableExistsSQL, CreateTableSQL), GroupedDataFrame.GetAllColumnNames — each under recover(),
// with boundary and extreme arguments, and with the frame dumped afterwards.

import (
	"github.com/kishyassin/goframe/dataframe"
)

func genMisc(r *Rng) *Enc {
	e := NewEnc()
	n := r.SmallN()
	names := plainNames
	if r.Chance(30) {
		names = colNames
	}
	df := r.Frame(n, r.Range(0, 3), names)
	e.Tok("F")
	e.Frame(df)
	keys := df.ColumnNames()
	// per column: lengths, At at boundary indices, AsFloat64
	for _, k := range keys {
		col := df.Columns[k]
		ser := dataframe.NewSeries(k, col.Data)
		var l1, l2 int
		st, _ := guard(func() error { l1, l2 = col.Len(), ser.Len(); return nil })
		e.Tok("LEN", st)
		e.Int(l1)
		e.Int(l2)
		for q := 0; q < 3; q++ {
			i := r.BoundaryInt(n)
			if q == 0 && n > 0 {
				i = r.Intn(n)
			}
			var v, sv any
			e.Tok("AT")
			e.Int(i)
			st, _ := guard(func() error { var err error; v, err = col.At(i); return err })
			e.Tok(st)
			if st == "ok" {
				e.Cell(v)
			}
			st2, _ := guard(func() error { sv = ser.At(i); return nil })
			e.Tok(st2)
			if st2 == "ok" {
				e.Cell(sv)
			}
		}
		var fs []float64
		st, _ = guard(func() error { var err error; fs, err = ser.AsFloat64(); return err })
		e.Tok("ASF", st)
		if st == "ok" {
			e.Int(len(fs))
			for _, f := range fs {
				e.Cell(f)
			}
		}
	}
	// Select: the live column or an error
	for q := 0; q < 2; q++ {
		name := r.NameFor(df, names)
		var c *dataframe.Column[any]
		st, _ := guard(func() error { var err error; c, err = df.Select(name); return err })
		e.Tok("SEL")
		e.Str(name)
		e.Tok(st)
		if st == "ok" {
			e.Bool(c == df.Columns[name])
		}
	}
	// String
	{
		var s string
		st, _ := guard(func() error { s = df.String(); return nil })
		e.Tok("STR", st)
		e.Int(len(s))
	}
	// typed columns: NewColumn / ConvertToAnyColumn / AddTypedColumn on a copy of the frame
	{
		m := n
		if r.Chance(30) {
			m = r.BoundaryInt(n)
			if m < 0 || m > 40 {
				m = n + 1
			}
		}
		ints := make([]int, m)
		strs := make([]string, m)
		for i := range ints {
			ints[i] = r.Range(-3, 3)
			strs[i] = Pick(r, []string{"a", "", "x|y", "1"})
		}
		target := dataframe.NewDataFrame()
		for _, k := range keys {
			d := append([]any{}, df.Columns[k].Data...)
			target.Columns[k] = &dataframe.Column[any]{Name: k, Data: d}
		}
		name := Pick(r, append([]string{"t", "zz"}, keys...))
		useInts := r.Bool()
		var conv *dataframe.Column[any]
		st, _ := guard(func() error {
			if useInts {
				c := dataframe.NewColumn(name, ints)
				conv = dataframe.ConvertToAnyColumn(c)
				return dataframe.AddTypedColumn(target, c)
			}
			c := dataframe.NewColumn(name, strs)
			conv = dataframe.ConvertToAnyColumn(c)
			return dataframe.AddTypedColumn(target, c)
		})
		e.Tok("TYPED")
		e.Str(name)
		e.Int(m)
		e.Bool(useInts)
		if useInts {
			for _, v := range ints {
				e.Cell(v)
			}
		} else {
			for _, v := range strs {
				e.Cell(v)
			}
		}
		e.Tok(st)
		if conv != nil {
			e.Tok("CONV")
			e.Str(conv.Name)
			e.Cells(conv.Data)
		} else {
			e.Tok("NOCONV")
		}
		e.Frame(target)
	}
	// dialect helpers with arbitrary arguments
	{
		dialects := []dataframe.SQLDialect{&dataframe.SQLiteDialect{}, &dataframe.PostgresDialect{}, &dataframe.MySQLDialect{}}
		di := r.Intn(3)
		d := dialects[di]
		idx := r.BoundaryInt(5)
		cols := map[string]string{}
		for _, k := range sqlNameAlpha[:r.Intn(4)] {
			cols[k] = Pick(r, []string{"TEXT", "", "INTEGER"})
		}
		tbl := Pick(r, sqlNameAlpha)
		var ph, te, ct string
		st, _ := guard(func() error {
			ph = d.Placeholder(idx)
			te = d.TableExistsSQL()
			ct = d.CreateTableSQL(tbl, cols)
			return nil
		})
		e.Tok("DIAL")
		e.Int(di)
		e.Int(idx)
		e.Tok(st)
		if st == "ok" {
			e.Str(ph)
			e.Str(te)
			e.Str(tbl)
			e.Int(len(cols))
			for _, k := range sortedStrKeys(cols) {
				e.Str(k)
				e.Str(cols[k])
			}
			e.Str(ct)
		}
	}
	// GetAllColumnNames on a grouping (valid or not)
	{
		key := r.NameFor(df, names)
		var got []string
		st, _ := guard(func() error { got = df.Groupby(key).GetAllColumnNames(); return nil })
		e.Tok("GACN", st)
		e.Int(len(got))
	}
	e.Tok("AFTER")
	e.Frame(df)
	return e
}

func sortedStrKeys(m map[string]string) []string {
	out := make([]string, 0, len(m))
	for k := range m {
		out = append(out, k)
	}
	for i := 1; i < len(out); i++ {
		for j := i; j > 0 && out[j] < out[j-1]; j-- {
			out[j], out[j-1] = out[j-1], out[j]
		}
	}
	return out
}
