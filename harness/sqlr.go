package main

// sqlr engine: FromSQL and its context / transaction variants against the recording driver serving a
// configured result set (C14).

import (
	"context"
	"database/sql"
	"database/sql/driver"
	"math"
	"reflect"
	"time"

	"github.com/kishyassin/goframe/dataframe"
)

var sqlrTypes = []string{"INTEGER", "BIGINT", "int", "REAL", "DOUBLE PRECISION", "FLOAT", "NUMERIC(10,2)", "BOOLEAN", "bool",
	"TIMESTAMP", "DATETIME", "DATE", "DATETIME2", "TEXT", "VARCHAR(20)", "CHAR(3)", "BLOB", "", "POINT", "INTERVAL", "JSON",
	"NUMERIC(10,0)", "NUMERIC(12,0)", "DECIMAL(8,0)", "TINYINT", "TINYINT(1)", "tinyint unsigned", "SMALLINT", "MEDIUMINT", "INT8", "DECIMAL(5,2)", "BIT"}

// natural scan kind of a declared type, mirroring the documented table (harness-side, for generation only)
func declKind(t string) string {
	u := ""
	for _, c := range t {
		if c >= 'a' && c <= 'z' {
			c -= 32
		}
		u += string(c)
	}
	has := func(p string) bool {
		for i := 0; i+len(p) <= len(u); i++ {
			if u[i:i+len(p)] == p {
				return true
			}
		}
		return false
	}
	switch {
	case has("INT"):
		return "int"
	case has("FLOAT") || has("REAL") || has("DOUBLE") || has("NUMERIC"):
		return "float"
	case has("BOOL"):
		return "bool"
	case has("TIME") || has("DATE"):
		return "time"
	default:
		return "string"
	}
}

func (e *Enc) NoteUnix(v int64) {
	t := time.Unix(v, 0)
	tt := encTime(t)
	e.addOracle("tu " + itoa64(v) + " " + tt)
}

func upperASCII(s string) string {
	b := []byte(s)
	for i, c := range b {
		if c >= 'a' && c <= 'z' {
			b[i] = c - 32
		}
	}
	return string(b)
}

func itoa64(v int64) string {
	if v < 0 {
		return "-" + itoa(int(-v))
	}
	return itoa(int(v))
}

func timeFromFloat64Ref(v float64) time.Time {
	if v > 1e12 || v < -1e12 {
		return time.UnixMilli(int64(v))
	}
	sec, frac := math.Modf(v)
	return time.Unix(int64(sec), int64(math.Round(frac*1e9)))
}

var parseLayouts = []string{time.RFC3339, time.RFC3339Nano, "2006-01-02 15:04:05", "2006-01-02", "2006-01-02 15:04:05.999999", time.RFC1123, time.RFC822}

func genSqlr(r *Rng) *Enc {
	e := NewEnc()
	time.Local = time.UTC
	ncols := r.Range(1, 5)
	nrows := r.SmallN()
	if r.Chance(30) {
		nrows = r.Range(4, 20)
	}
	names := make([]string, ncols)
	types := make([]string, ncols)
	namePool := []string{"id", "name", "v", "ts", "flag", "x", "y"}
	perm := r.Perm(len(namePool))
	for j := range names {
		names[j] = namePool[perm[j]]
		types[j] = Pick(r, sqlrTypes)
	}
	if ncols > 1 && r.Chance(4) {
		names[1] = names[0] // duplicate result column
	}
	handlerKind := r.Intn(8) // 0 none, 1 nil, 2 zero, 3 skip_row, 4 map, 5 unknown string, 6 bad type, 7 none
	// ParseDates: a subset of the columns
	var parseDates []string
	for j := range names {
		if r.Chance(20) {
			parseDates = append(parseDates, names[j])
		}
	}
	inPD := func(n string) bool {
		for _, p := range parseDates {
			if p == n {
				return true
			}
		}
		return false
	}
	nullRate := Pick(r, []int{0, 10, 30, 100})
	known := []time.Time{time.Date(2024, 1, 15, 10, 30, 0, 0, time.UTC), time.Date(1999, 12, 31, 23, 59, 59, 0, time.UTC), time.Date(2021, 6, 1, 0, 0, 0, 0, time.UTC)}
	rows := make([][]driver.Value, nrows)
	for i := range rows {
		row := make([]driver.Value, ncols)
		for j := range row {
			if r.Chance(nullRate) {
				row[j] = nil
				continue
			}
			switch declKind(types[j]) {
			case "int":
				row[j] = int64(r.Range(-5, 5))
				if inPD(names[j]) {
					row[j] = Pick(r, []int64{0, 1700000000, -1, 86400, 1000000000000, 1000000000001, -1000000000001, 1700000000000, 253402300799})
				}
			case "float":
				row[j] = float64(r.Range(-8, 8)) / 4
				if inPD(names[j]) {
					row[j] = Pick(r, []float64{0, 1700000000.5, 1.7e12 + 250, -2.25})
				}
			case "bool":
				row[j] = r.Bool()
			case "time":
				row[j] = Pick(r, known)
			default:
				row[j] = Pick(r, []string{"a", "b", "", "x y", "NULL", "0", "a ", " ", "pad  ", " lead"})
				if inPD(names[j]) {
					t := Pick(r, known)
					row[j] = t.Format(Pick(r, parseLayouts))
					if r.Chance(8) && handlerKind != 3 {
						row[j] = Pick(r, []string{"not a date", "2024-13-45", "15/01/2024"})
					}
				}
			}
		}
		rows[i] = row
	}
	// a scan error: non-numeric text in a numeric column
	scanBad := r.Chance(4) && nrows > 0
	if scanBad {
		for j := range types {
			if k := declKind(types[j]); k == "int" || k == "float" {
				rows[r.Intn(nrows)][j] = "abc"
				break
			}
		}
	}
	errAt := -1
	if r.Chance(8) {
		errAt = r.Intn(nrows + 1)
	}
	queryErr := r.Chance(4)
	nilHandle := r.Chance(4)
	query := "SELECT * FROM t"
	if r.Chance(4) {
		query = ""
	}
	entry := r.Intn(4)
	var opts []dataframe.SQLReadOption
	var o dataframe.SQLReadOption
	mapVals := map[string]any{}
	switch handlerKind {
	case 1:
		o.NullHandler = "nil"
	case 2:
		o.NullHandler = "zero"
	case 3:
		o.NullHandler = "skip_row"
	case 4:
		for _, n := range names {
			if r.Bool() {
				mapVals[n] = Pick(r, []any{0, "dflt", -1.5, false, int64(7), "zero", "skip_row", "nil"})
			} else if r.Chance(40) {
				// a key that equals the column name only up to letter case is NOT that column's entry
				mapVals[upperASCII(n)] = Pick(r, []any{1, "other", int64(9)})
			}
		}
		o.NullHandler = mapVals
	case 5:
		o.NullHandler = Pick(r, []string{"bogus", "Zero", "", "skip_rows", "no_skip_row", "skip_row_if_null", "nil ", "zeros"})
	case 6:
		o.NullHandler = 42
	}
	o.ParseDates = parseDates
	if handlerKind != 0 || len(parseDates) > 0 {
		opts = append(opts, o)
		if r.Chance(6) {
			// a second option struct: only the first one counts
			opts = append(opts, dataframe.SQLReadOption{NullHandler: "skip_row", ParseDates: append([]string{}, names...)})
		}
	}

	// ---- emit the input ----
	e.NoteUnix(0)
	e.addOracle("tf " + encFloat("64", 0) + " " + encTime(timeFromFloat64Ref(0)))
	for _, l := range parseLayouts {
		e.NoteTimeParse(l, "")
	}
	e.Tok("IN")
	e.Int(entry)
	e.Bool(nilHandle)
	e.Str(query)
	e.Bool(queryErr)
	e.Strs(names)
	e.Strs(types)
	e.Int(nrows)
	for _, row := range rows {
		for _, v := range row {
			e.Cell(v)
			switch x := v.(type) {
			case string:
				for _, l := range parseLayouts {
					e.NoteTimeParse(l, x)
				}
			case int64:
				e.NoteUnix(x)
			case float64:
				e.addOracle("tf " + encFloat("64", x) + " " + encTime(timeFromFloat64Ref(x)))
			}
		}
	}
	e.Int(errAt)
	hk := handlerKind
	if len(opts) == 0 {
		hk = 0
	}
	e.Int(hk)
	if hk == 5 {
		e.Str(o.NullHandler.(string))
	}
	if hk == 4 {
		ks := make([]string, 0, len(mapVals))
		for k := range mapVals {
			ks = append(ks, k)
		}
		for i := 1; i < len(ks); i++ {
			for j := i; j > 0 && ks[j] < ks[j-1]; j-- {
				ks[j], ks[j-1] = ks[j-1], ks[j]
			}
		}
		e.Int(len(ks))
		for _, k := range ks {
			e.Str(k)
			e.Cell(mapVals[k])
			if iv, ok := mapVals[k].(int); ok {
				e.NoteUnix(int64(iv))
			}
			if iv, ok := mapVals[k].(int64); ok {
				e.NoteUnix(iv)
			}
			if fv, ok := mapVals[k].(float64); ok {
				e.addOracle("tf " + encFloat("64", fv) + " " + encTime(timeFromFloat64Ref(fv)))
			}
			if sv, ok := mapVals[k].(string); ok {
				for _, l := range parseLayouts {
					e.NoteTimeParse(l, sv)
				}
			}
		}
	}
	e.Strs(parseDates)

	// ---- run ----
	// the caller's option values are reused from import to import: an earlier import made with the very same NullHandler
	// map, but with every column listed in ParseDates, over a result set of NULLs, must leave nothing behind in that map
	if handlerKind == 4 && len(opts) > 0 {
		wrow := make([]driver.Value, ncols)
		wst := &dbState{failAt: -1, rs: &resultSet{names: names, types: types, rows: [][]driver.Value{wrow}, errAt: -1}}
		wdb := openFake(wst)
		guard(func() error {
			_, err := dataframe.FromSQL(wdb, "SELECT 1", nil, dataframe.SQLReadOption{NullHandler: mapVals, ParseDates: append([]string{}, names...)})
			return err
		})
		wdb.Close()
	}
	// SQLite-style transport in a quarter of the cases (chosen from the case's own shape, no PRNG draw): BOOLEAN values
	// travel as int64 0/1 and whole REAL/NUMERIC values as int64, and the driver reports the Go type it transports.
	// database/sql converts them back (convertAssign) into the type the declared name asks for, so the imported frame
	// must be the one of the native transport, which is what the model is given.
	var wire [][]driver.Value
	var scanTypes []reflect.Type
	if (errAt+1+nrows*7+ncols*3+handlerKind)%4 == 0 {
		scanTypes = make([]reflect.Type, ncols)
		cross := make([]bool, ncols)
		for j := range types {
			k := declKind(types[j])
			switch k {
			case "int":
				scanTypes[j] = reflect.TypeOf(int64(0))
			case "float":
				scanTypes[j] = reflect.TypeOf(float64(0))
			case "bool":
				scanTypes[j] = reflect.TypeOf(false)
			case "time":
				scanTypes[j] = reflect.TypeOf(time.Time{})
			default:
				scanTypes[j] = reflect.TypeOf("")
			}
			if (k == "bool" || k == "float") && !inPD(names[j]) {
				cross[j] = true
				scanTypes[j] = reflect.TypeOf(int64(0))
			}
		}
		wire = make([][]driver.Value, len(rows))
		for i, row := range rows {
			w := make([]driver.Value, len(row))
			copy(w, row)
			for j, v := range row {
				if !cross[j] {
					continue
				}
				switch x := v.(type) {
				case bool:
					if x {
						w[j] = int64(1)
					} else {
						w[j] = int64(0)
					}
				case float64:
					if x == math.Trunc(x) && math.Abs(x) < 1e15 {
						w[j] = int64(x)
					}
				}
			}
			wire[i] = w
		}
	}
	st := &dbState{failAt: -1, rs: &resultSet{names: names, types: types, rows: rows, errAt: errAt, errKind: r.Intn(5), wire: wire, scanTypes: scanTypes}, queryErr: queryErr}
	db := openFake(st)
	defer db.Close()
	var res *dataframe.DataFrame
	// a nil context is an accepted argument of the context readers (they substitute context.Background())
	var ctx context.Context = context.Background()
	if r.Chance(15) {
		ctx = nil
	}
	status, _ := guard(func() error {
		var err error
		switch entry {
		case 0:
			var h *sql.DB = db
			if nilHandle {
				h = nil
			}
			res, err = dataframe.FromSQL(h, query, nil, opts...)
		case 1:
			var h *sql.DB = db
			if nilHandle {
				h = nil
			}
			res, err = dataframe.FromSQLContext(ctx, h, query, nil, opts...)
		default:
			var tx *sql.Tx
			if !nilHandle {
				tx, err = db.Begin()
				if err != nil {
					return err
				}
				defer tx.Rollback()
			}
			if entry == 2 {
				res, err = dataframe.FromSQLTx(tx, query, nil, opts...)
			} else {
				res, err = dataframe.FromSQLTxContext(ctx, tx, query, nil, opts...)
			}
		}
		return err
	})
	e.Tok("R", status)
	if status == "ok" {
		e.Frame(res)
		// the imported frame is an ordinary frame: a row appended to it lands in its own row and nowhere else
		if r.Chance(40) {
			row := map[string]any{}
			for _, k := range res.ColumnNames() {
				row[k] = Pick(r, []any{"new", 77, nil, 2.5})
			}
			pst, _ := guard(func() error { return res.AppendRow(res, row) })
			e.Tok("POST")
			e.Row(row)
			e.Tok(pst)
			e.Frame(res)
		}
	} else if res != nil {
		e.Tok("PARTIAL")
	}
	return e
}
