module gfverif

go 1.24.7

require github.com/kishyassin/goframe v0.0.0

require (
	github.com/golang/freetype v0.0.0-20170609003504-e2365dfdc4a0 // indirect
	github.com/wcharczuk/go-chart/v2 v2.1.2 // indirect
	golang.org/x/image v0.18.0 // indirect
)

replace github.com/kishyassin/goframe => /repo
