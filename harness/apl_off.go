//go:build !verif

package main

func genApl(r *Rng, tier string) *Enc { panic("apl engine needs -tags verif") }
