package main

// A recording database/sql driver. It interprets no SQL: it records every call reaching the driver
// (text and bound values), fails the call whose index is failAt, answers the table-existence query from
// the scenario, and serves a configured result set (declared column types, values, error at row k).

import (
	"context"
	"database/sql"
	"database/sql/driver"
	"errors"
	"fmt"
	"io"
	"reflect"
	"strings"
	"sync"
)

type recCall struct {
	kind string // B Q E C RB ; QA / EA = issued outside any transaction (auto-commit)
	text string
	args []any
	ok   bool
}

type resultSet struct {
	names   []string
	types   []string
	rows    [][]driver.Value
	errAt   int // Next fails before delivering row errAt (-1: never)
	errKind int // which error value Next fails with
	scanBad bool
	// wire: what the driver hands to database/sql when it transports a column in another Go type than its declared
	// kind (SQLite-style: BOOLEAN and whole NUMERIC/REAL values as int64); nil = rows as they are
	wire      [][]driver.Value
	scanTypes []reflect.Type // per column, what ColumnTypeScanType reports (nil = driver does not say)
}

type dbState struct {
	mu         sync.Mutex
	calls      []recCall
	idx        int
	failAt     int
	exists     bool
	recording  bool
	rs         *resultSet
	queryErr   bool
	cancel     func() // when set, the failing call cancels the context instead of returning a driver error
	faultKind  int    // which error value the failing call returns (see faultErr)
	cancelKeep bool   // with cancel set: the context is cancelled DURING call failAt, which itself succeeds
}

var errInjected = errors.New("injected driver fault")

// faultErr: the error a failing driver call returns. A failed step is a failed step whatever its error value
// looks like: errors that wrap context errors although the caller's context is live (a driver-side timeout),
// bad-connection errors, and the database/sql sentinels are all plausible driver results.
func (s *dbState) faultErr(kind string) error {
	switch s.faultKind {
	case 1:
		return fmt.Errorf("driver: statement timed out: %w", context.DeadlineExceeded)
	case 2:
		return fmt.Errorf("driver: operation aborted: %w", context.Canceled)
	case 3:
		if kind != "B" { // database/sql itself retries a Begin that reports a bad connection
			return driver.ErrBadConn
		}
	case 4:
		return sql.ErrTxDone
	case 5:
		return io.EOF
	case 7:
		return errors.New(`pq: relation "t" already exists`) // an error TEXT some code might special-case
	case 6:
		// (sql.ErrNoRows is deliberately absent: QueryRow().Scan() reports "no rows" by that very value, so a driver
		// returning it from the existence query IS the answer "table absent", not a failed step)
		return context.Canceled
	}
	return errInjected
}

// nextFailExists makes Rows.Next of the table-existence query fail (set around one scenario run)
var nextFailExists bool

func (s *dbState) record(kind, text string, args []driver.NamedValue) bool {
	s.mu.Lock()
	defer s.mu.Unlock()
	if !s.recording {
		return true
	}
	ok := s.idx != s.failAt
	if !ok && s.cancel != nil {
		s.cancel()
		if s.cancelKeep {
			ok = true
		}
	}
	s.idx++
	vals := make([]any, len(args))
	for i, a := range args {
		vals[i] = a.Value
	}
	s.calls = append(s.calls, recCall{kind: kind, text: text, args: vals, ok: ok})
	return ok
}

type recConnector struct{ st *dbState }

func (c recConnector) Connect(context.Context) (driver.Conn, error) { return &recConn{st: c.st}, nil }
func (c recConnector) Driver() driver.Driver                        { return recDriver{} }

type recDriver struct{}

func (recDriver) Open(string) (driver.Conn, error) { return nil, errors.New("use OpenDB") }

type recConn struct {
	st   *dbState
	inTx bool
}

func (c *recConn) Prepare(q string) (driver.Stmt, error) {
	return nil, errors.New("prepare not supported")
}
func (c *recConn) Close() error { return nil }
func (c *recConn) Begin() (driver.Tx, error) {
	return c.BeginTx(context.Background(), driver.TxOptions{})
}
func (c *recConn) BeginTx(ctx context.Context, _ driver.TxOptions) (driver.Tx, error) {
	if !c.st.record("B", "", nil) {
		return nil, c.st.faultErr("B")
	}
	c.inTx = true
	return &recTx{st: c.st, conn: c}, nil
}
func (c *recConn) ExecContext(ctx context.Context, q string, args []driver.NamedValue) (driver.Result, error) {
	kind := "E"
	if !c.inTx {
		kind = "EA"
	}
	if !c.st.record(kind, q, args) {
		return nil, c.st.faultErr(kind)
	}
	return driver.RowsAffected(0), nil
}
func (c *recConn) QueryContext(ctx context.Context, q string, args []driver.NamedValue) (driver.Rows, error) {
	kind := "Q"
	if !c.inTx {
		kind = "QA"
	}
	if !c.st.record(kind, q, args) {
		return nil, c.st.faultErr(kind)
	}
	if c.st.rs != nil {
		if c.st.queryErr {
			return nil, errInjected
		}
		return &recRows{rs: c.st.rs}, nil
	}
	rs := &resultSet{names: []string{"name"}, types: []string{"TEXT"}, errAt: -1}
	if nextFailExists {
		rs.errAt = 0
		c.st.mu.Lock()
		if c.st.recording {
			c.st.calls = append(c.st.calls, recCall{kind: "N", ok: false})
		}
		c.st.mu.Unlock()
	}
	if c.st.exists {
		rs.rows = [][]driver.Value{{"t"}}
	}
	return &recRows{rs: rs}, nil
}

type recTx struct {
	st   *dbState
	conn *recConn
}

func (t *recTx) Commit() error {
	t.conn.inTx = false
	if !t.st.record("C", "", nil) {
		return t.st.faultErr("C")
	}
	return nil
}
func (t *recTx) Rollback() error {
	t.conn.inTx = false
	if !t.st.record("RB", "", nil) {
		return t.st.faultErr("RB")
	}
	return nil
}

type recRows struct {
	rs  *resultSet
	pos int
}

func (r *recRows) Columns() []string { return r.rs.names }
func (r *recRows) Close() error      { return nil }
func (r *recRows) Next(dest []driver.Value) error {
	if r.pos == r.rs.errAt {
		switch r.rs.errKind {
		case 1:
			return fmt.Errorf("read tcp 10.0.0.1:5432: %w", io.EOF) // a dropped connection, not the end of the result set
		case 2:
			return io.ErrUnexpectedEOF
		case 3:
			return fmt.Errorf("driver: %w", context.Canceled)
		}
		return errInjected
	}
	if r.pos >= len(r.rs.rows) {
		return io.EOF
	}
	if r.rs.wire != nil {
		copy(dest, r.rs.wire[r.pos])
	} else {
		copy(dest, r.rs.rows[r.pos])
	}
	r.pos++
	return nil
}
func (r *recRows) ColumnTypeDatabaseTypeName(i int) string { return r.rs.types[i] }

// ColumnTypeScanType: the Go type the driver transports the column in (database/sql's default, interface{}, when unknown)
func (r *recRows) ColumnTypeScanType(i int) reflect.Type {
	if r.rs.scanTypes != nil && i < len(r.rs.scanTypes) && r.rs.scanTypes[i] != nil {
		return r.rs.scanTypes[i]
	}
	return reflect.TypeOf(new(any)).Elem()
}

// ColumnTypePrecisionScale: drivers such as pq / pgx report NUMERIC(p,s) metadata; here parsed from the declared type
func (r *recRows) ColumnTypePrecisionScale(i int) (precision, scale int64, ok bool) {
	t := r.rs.types[i]
	var p, s int64
	if n, _ := fmt.Sscanf(t[strings.IndexByte(t+"(", '('):], "(%d,%d)", &p, &s); n == 2 {
		return p, s, true
	}
	return 0, 0, false
}

func openFake(st *dbState) *sql.DB {
	db := sql.OpenDB(recConnector{st: st})
	db.SetMaxOpenConns(2)
	return db
}

func (e *Enc) Trace(calls []recCall) {
	e.Tok("TRACE")
	e.Int(len(calls))
	for _, c := range calls {
		e.Tok(c.kind)
		if c.kind == "Q" || c.kind == "E" || c.kind == "QA" || c.kind == "EA" {
			e.Str(c.text)
			e.Int(len(c.args))
			for _, a := range c.args {
				switch v := a.(type) {
				case []byte:
					e.Cell(string(v))
				default:
					e.Cell(v)
				}
			}
		}
		if c.ok {
			e.Tok("ok")
		} else {
			e.Tok("fail")
		}
	}
}

var _ = fmt.Sprint
