package main

// grp engine: Groupby (single key / key list) and the grouped Sum/Mean/Count (C04, C05).

import (
	"math"
	"time"

	"github.com/kishyassin/goframe/dataframe"
)

// time keys that differ only below one second, and one instant in two zones
func grpTimeKeys() []any {
	b := time.Date(2024, 3, 5, 10, 20, 30, 0, utc)
	return []any{b, b.Add(1), b.Add(500 * time.Millisecond), b.Add(time.Second), b.In(zonePlus), b.Add(999999999), nil}
}

var grpKeyAlpha = []any{1, int64(1), 1.0, "1", "x|y", "x", "y|z", "z", nil, "<nil>", true, "true", 2, "a", "b"}

func genGrp(r *Rng, tier string) *Enc {
	e := NewEnc()
	n := r.SmallN()
	if r.Chance(40) {
		n = r.Range(4, 30)
	}
	if r.Intn(70) == 0 {
		n = Pick(r, []int{513, 515, 1001, 2047}) // beyond plausible chunking / parallelisation thresholds, not a multiple of 4
	}
	df := dataframe.NewDataFrame()
	nk := r.Range(1, 3)
	knames := []string{"p", "q", "s"}[:nk]
	if r.Chance(5) {
		knames = []string{"", "q", "s"}[:nk] // a column whose name is the empty string is a column like any other
	}
	collide := r.Chance(12) // the K1 input class is generated at a low rate
	for _, kn := range knames {
		alpha := []any{1, 2, "a", "b", nil, true, int64(1)}
		if r.Chance(6) {
			alpha = []any{"NaN", "nan", "Inf", "1", "1.0", "a"} // texts that SPELL numbers are still just texts
		} else if r.Chance(6) {
			alpha = []any{"IT", "IT ", "HR", "HR ", " IT", "it"} // keys differing only in blanks or case are different keys
		}
		if r.Chance(6) {
			alpha = []any{float32(0.1), float32(0.3), 0.1, 0.5, float32(0.5), 1.5, 0.30000001192092896} // float keys of both widths
		}
		if collide {
			alpha = grpKeyAlpha
		}
		alpha = alpha[:r.Range(2, len(alpha))]
		if r.Chance(8) {
			alpha = grpTimeKeys()
		}
		d := make([]any, n)
		for i := range d {
			d[i] = Pick(r, alpha)
		}
		df.Columns[kn] = &dataframe.Column[any]{Name: kn, Data: d}
	}
	vnames := []string{"v", "w", "u"}[:r.Range(0, 3)]
	if r.Chance(10) {
		vnames = []string{" v", "w ", "u"}[:r.Range(1, 3)] // names with edge white space (a CSV header "k, v" produces them)
	}
	if len(vnames) > 0 && knames[0] != "" && r.Chance(6) {
		vnames = append([]string{""}, vnames[1:]...) // a VALUE column whose name is the empty string
	}
	for ci, vn := range vnames {
		d := make([]any, n)
		if r.Chance(12) {
			// a column of magnitudes near the int64 limit: every partial sum is a multiple of 2^20 below 2^67,
			// hence exact in float64, while an int64 accumulator would wrap
			for i := range d {
				d[i] = Pick(r, []any{int64(4e18), int64(4e18), int64(-4e18), int(4e18), int64(1) << 62, uint64(1) << 62, int64(0), nil})
			}
			df.Columns[vn] = &dataframe.Column[any]{Name: vn, Data: d}
			continue
		}
		for i := range d {
			switch r.Intn(10) {
			case 0:
				d[i] = nil
			case 1:
				d[i] = Pick(r, []any{"7", "t", true})

			default:
				// cycle deterministically through every numeric width
				w := allWidths[(i+ci+r.Intn(2))%len(allWidths)]
				d[i] = scaleNum(w, r.Range(-3, 6))
				if _, isF32 := w.(float32); isF32 && r.Chance(30) {
					d[i] = Pick(r, []float32{0.1, 1.1, 16777.217}) // not short decimals once widened to float64
				}
			}
		}
		if n > 0 && r.Chance(6) {
			d[r.Intn(n)] = math.NaN() // NaN is a number: it propagates through the group sum AND through the frame-level sum
		}
		df.Columns[vn] = &dataframe.Column[any]{Name: vn, Data: d}
	}
	if r.Chance(5) {
		df.Columns["GroupKey"] = &dataframe.Column[any]{Name: "GroupKey", Data: r.Column(n, kInt)}
	}
	list := r.Bool()
	var keys []string
	if list {
		keys = append([]string{}, knames[:r.Range(1, nk)]...)
		if r.Chance(8) {
			keys = append(keys, keys[0]) // the same column named twice in the key list
		}
		if r.Chance(8) {
			keys = append(keys, "zz")
		}
		if r.Chance(4) {
			keys = []string{}
		}
	} else {
		keys = []string{Pick(r, knames)}
		if r.Chance(8) {
			keys = []string{"zz"}
		}
		if nk >= 2 && r.Chance(5) {
			keys = []string{knames[0] + Pick(r, []string{",", ", "}) + knames[1]} // names no column, though its parts do
		}
	}
	e.Tok("F")
	e.Frame(df)
	e.Tok("LIST")
	e.Bool(list)
	e.Strs(keys)
	var g *dataframe.GroupedDataFrame
	status, _ := guard(func() error {
		if list {
			g = df.Groupby(keys)
		} else {
			g = df.Groupby(keys[0])
		}
		return g.Error()
	})
	e.Tok("R", status)
	if status == "ok" {
		e.Tok("NG")
		e.Int(len(g.Groups))
		e.Tok("KO")
		e.Int(len(g.KeyOrder))
		for _, k := range g.KeyOrder {
			e.Cell(k)
			rows := g.Groups[k]
			e.Int(len(rows))
			for _, row := range rows {
				e.Row(row)
			}
		}
	}
	if status == "panic" {
		return e
	}
	allCols := df.ColumnNames()
	pickCols := func() []string {
		nc := r.Range(1, 3)
		out := make([]string, nc)
		for i := range out {
			out[i] = Pick(r, allCols)
			if r.Chance(5) {
				out[i] = "zz"
			}
		}
		return out
	}
	agg := func(name string, cols []string, f func(...string) (*dataframe.DataFrame, error)) {
		e.Tok("AGG", name)
		e.Strs(cols)
		var res *dataframe.DataFrame
		st, _ := guard(func() error { var err error; res, err = f(cols...); return err })
		e.Tok("R", st)
		if st == "ok" {
			e.Frame(res)
		}
	}
	agg("sum", pickCols(), g.Sum)
	agg("mean", pickCols(), g.Mean)
	agg("count", pickCols(), g.Count)
	agg("sum", nil, g.Sum)
	agg("mean", nil, g.Mean)
	agg("count", nil, g.Count)
	// frame-level Sum for the conservation law
	e.Tok("FS")
	var tot map[string]float64
	// (on the sub-frame of the all-numeric value columns: the frame-level Sum refuses a frame with any other cell)
	sumFrame := dataframe.NewDataFrame()
	for _, vn := range vnames {
		c := df.Columns[vn]
		allNum := len(c.Data) > 0
		for _, v := range c.Data {
			switch v.(type) {
			case int, int8, int16, int32, int64, uint, uint8, uint16, uint32, uint64, float32, float64:
			default:
				allNum = false
			}
		}
		if allNum {
			sumFrame.Columns[vn] = &dataframe.Column[any]{Name: vn, Data: append([]any{}, c.Data...)}
		}
	}
	if len(sumFrame.Columns) == 0 {
		sumFrame = df
	}
	st, _ := guard(func() error { var err error; tot, err = sumFrame.Sum(); return err })
	e.Tok("R", st)
	if st == "ok" {
		e.Int(len(tot))
		for _, k := range sortedKeys(tot) {
			e.Str(k)
			e.Cell(tot[k])
		}
	}
	// the source must not have been touched
	e.Tok("AFTER")
	e.Frame(df)
	// (a) aggregates of ONE grouping must be independent frames: aggregate, edit the result in place, aggregate
	//     again — the second result must equal the first as it was returned
	e.Tok("REAGG")
	if status == "ok" && len(allCols) > 0 {
		cols := []string{allCols[0]}
		if r.Bool() {
			cols = nil // the argument-less form, twice
		}
		var first, second *dataframe.DataFrame
		st1, _ := guard(func() error { var err error; first, err = g.Sum(cols...); return err })
		e.Tok(st1)
		if st1 == "ok" {
			before := e.FrameS(first)
			guard(func() error {
				if first.Nrows() > 0 {
					first.DropRow(0)
				}
				first.FillNa("edited")
				return nil
			})
			// a caller who asks for the column list and edits the slice it was handed (filters it in place, blanks it)
			// must not change what the grouping aggregates next
			guard(func() error {
				names := g.GetAllColumnNames()
				kept := names[:0]
				for i, nm := range names {
					if i%2 == 1 {
						kept = append(kept, nm)
					}
				}
				for i := range names {
					if i >= len(kept) {
						names[i] = "edited"
					}
				}
				return nil
			})
			st2, _ := guard(func() error { var err error; second, err = g.Sum(cols...); return err })
			e.Tok(st2)
			if st2 == "ok" {
				if e.FrameS(second) == before {
					e.Tok("same")
				} else {
					e.Tok("differs")
				}
			}
		}
	} else {
		e.Tok("skip")
	}
	// KeyOrder must still name every group once after a returned aggregate was edited in place
	e.Tok("KO2")
	if status == "ok" {
		e.Int(len(g.KeyOrder))
		for _, k := range g.KeyOrder {
			e.Cell(k)
		}
	} else {
		e.Int(0)
	}
	// … and the groups still hold the frame's own rows, cell for cell, after the aggregations have run
	e.Tok("G2")
	if status == "ok" {
		e.Tok("NG")
		e.Int(len(g.Groups))
		e.Tok("KO")
		e.Int(len(g.KeyOrder))
		for _, k := range g.KeyOrder {
			e.Cell(k)
			rows := g.Groups[k]
			e.Int(len(rows))
			for _, row := range rows {
				e.Row(row)
			}
		}
	}
	// (b) grouping again after an in-place edit of the frame must see the edit (no stale partition)
	e.Tok("REGROUP")
	if status == "ok" && n > 0 && len(keys) > 0 {
		kcol := df.Columns[keys[0]]
		guard(func() error {
			kcol.Data[r.Intn(n)] = Pick(r, []any{1, "b", nil, true, 2})
			if len(vnames) > 0 {
				df.Columns[vnames[0]].Data[r.Intn(n)] = 41
			}
			return nil
		})
		var g2 *dataframe.GroupedDataFrame
		st, _ := guard(func() error {
			if list {
				g2 = df.Groupby(keys)
			} else {
				g2 = df.Groupby(keys[0])
			}
			return g2.Error()
		})
		e.Tok(st)
		e.Frame(df)
		if st == "ok" {
			e.Tok("NG")
			e.Int(len(g2.Groups))
			e.Tok("KO")
			e.Int(len(g2.KeyOrder))
			for _, k := range g2.KeyOrder {
				e.Cell(k)
				rows := g2.Groups[k]
				e.Int(len(rows))
				for _, row := range rows {
					e.Row(row)
				}
			}
		}
	} else {
		e.Tok("skip")
	}
	return e
}

func sortedKeys(m map[string]float64) []string {
	out := make([]string, 0, len(m))
	for k := range m {
		out = append(out, k)
	}
	for i := 1; i < len(out); i++ {
		for j := i; j > 0 && out[j] < out[j-1]; j-- {
			out[j], out[j-1] = out[j-1], out[j]
		}
	}
	return out
}

// scaleNum returns v (a value of some numeric type) scaled to k of the same type.
func scaleNum(w any, k int) any {
	switch w.(type) {
	case int:
		return int(k)
	case int8:
		return int8(k)
	case int16:
		return int16(k)
	case int32:
		return int32(k)
	case int64:
		return int64(k)
	case uint:
		if k < 0 {
			k = -k
		}
		return uint(k)
	case uint8:
		if k < 0 {
			k = -k
		}
		return uint8(k)
	case uint16:
		if k < 0 {
			k = -k
		}
		return uint16(k)
	case uint32:
		if k < 0 {
			k = -k
		}
		return uint32(k)
	case uint64:
		if k < 0 {
			k = -k
		}
		return uint64(k)
	case float32:
		return float32(k) / 2
	default:
		return float64(k) / 4
	}
}
