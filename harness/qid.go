package main

// qid engine: QuoteIdentifier of the three exported dialects on every string over a 9-character
// alphabet (index -> string, shortest first), plus random longer / non-ASCII names (C13).

import (
	"github.com/kishyassin/goframe/dataframe"
)

var qidAlpha = []byte{'"', '`', '\'', '\\', ';', '-', ' ', 'a', 'b'}

func qidString(idx int) string {
	n := idx
	for l := 0; ; l++ {
		cnt := 1
		for k := 0; k < l; k++ {
			cnt *= len(qidAlpha)
		}
		if n < cnt {
			b := make([]byte, l)
			for k := 0; k < l; k++ {
				b[k] = qidAlpha[n%len(qidAlpha)]
				n /= len(qidAlpha)
			}
			return string(b)
		}
		n -= cnt
	}
}

func genQid(r *Rng, idx int, mode string) *Enc {
	e := NewEnc()
	name := qidString(idx)
	if mode == "random" {
		parts := []string{"\"", "`", "é", "漢", "--", "/*", "*/", "x", " ", "\\", "';", "\"\"", "\n", "\x00", "DROP", "caf\xe9", "\xff", "\xc3", "\xe6\xbc"}
		name = ""
		for k := r.Range(0, 8); k > 0; k-- {
			name += Pick(r, parts)
		}
		if r.Chance(35) {
			// long names with a quote character around typical identifier-length limits (63, 64, 128)
			limit := Pick(r, []int{63, 64, 128, 30})
			b := make([]byte, limit+r.Range(-3, 8))
			for i := range b {
				b[i] = byte('a' + i%26)
			}
			for k := r.Range(1, 3); k > 0; k-- {
				pos := limit - 1 + r.Range(-2, 2)
				if pos >= 0 && pos < len(b) {
					b[pos] = Pick(r, []byte{'"', '`'})
				}
			}
			name = string(b)
		}
	}
	e.Tok("Q")
	e.Str(name)
	for _, d := range []dataframe.SQLDialect{&dataframe.SQLiteDialect{}, &dataframe.PostgresDialect{}, &dataframe.MySQLDialect{}} {
		var q string
		st, _ := guard(func() error { q = d.QuoteIdentifier(name); return nil })
		e.Tok(st)
		e.Str(q)
	}
	return e
}
