package main

// csv engine: FromCSVReader on generated / mutated bytes (C10) and ToCSVWriter -> FromCSVReader (C09).

import (
	"bytes"
	"encoding/csv"
	"encoding/hex"
	"io"
	"math"
	"os"
	"strings"

	"github.com/kishyassin/goframe/dataframe"
)

var csvFieldAlpha = []string{"a", "b", "0", "1", "1.5", "-2", "1e3", "1e400", "1e-400", "1_0", "0x1p-2", "0x10", " 7 ", "7 ",
	"Inf", "-inf", "nan", "+Inf", "infinity", "", " ", "x y", "a,b", "say \"hi\"", "line\nbreak", "cr\rhere", "crlf\r\nx",
	"  9", " 1", "é", "漢", "\\.", "\t2", "00", ".5", "5.", "--1", "1e", "true", "<nil>", "+1", "1,5",
	"-0", " -0 ", "-00", "-0.0", "+0", "-0e5", "#c", "#", "# 1", ";x", "//x",
	// blanks of every kind strings.TrimSpace knows, as the outermost byte(s) of numbers and of text
	"\v2.5", "3.5\f", "\u00a04", "5\u0085", "\u20036", "\vx\f", "\u00a0", "\f", "y\v"}

func csvQuote(s string) string { return `"` + strings.ReplaceAll(s, `"`, `""`) + `"` }

// noteFields records trim/parse oracle entries for every field encoding/csv itself finds in data.
func noteFields(e *Enc, data []byte) {
	rd := csv.NewReader(bytes.NewReader(data))
	rd.FieldsPerRecord = -1
	for {
		rec, err := rd.Read()
		for _, f := range rec {
			e.NoteTrim(f)
			e.NoteParse(strings.TrimSpace(f))
		}
		if err != nil {
			break
		}
	}
}

func genCsvImport(r *Rng) *Enc {
	e := NewEnc()
	var sb strings.Builder
	ncols := r.Range(1, 4)
	nrows := r.Intn(6)
	big := false
	if r.Intn(60) == 0 {
		nrows = Pick(r, []int{65, 66, 100, 130, 257}) // more records than a small pre-sized block would hold
		big = true
	} else if r.Intn(400) == 0 {
		nrows = Pick(r, []int{4097, 4099, 6002})
		big = true
	}
	if big && ncols < 2 {
		ncols = 2
	}
	sparse := big && nrows > 1100 && r.Bool() // one column holds text / blanks for the first 1100 records, numbers afterwards
	hdrNames := []string{"a", "b", "c", "d", "a b", "x,y", "q\"q", "", " s", "#h", "s ", "a ", "sep=;", "sep=,"}
	perm := r.Perm(len(hdrNames))
	if ncols == 1 && r.Chance(10) {
		perm[0] = len(hdrNames) - 1 - r.Intn(2) // a lone header field that looks like a separator directive
	}
	for j := 0; j < ncols; j++ {
		if j > 0 {
			sb.WriteByte(',')
		}
		name := hdrNames[perm[j]]
		if r.Chance(6) && j > 0 {
			name = hdrNames[perm[0]] // repeated header name
		}
		if strings.ContainsAny(name, ",\"\n\r") || r.Chance(20) {
			sb.WriteString(csvQuote(name))
		} else {
			sb.WriteString(name)
		}
	}
	sb.WriteString(Pick(r, []string{"\n", "\n", "\r\n"}))
	for i := 0; i < nrows; i++ {
		nf := ncols
		if r.Chance(6) && !big {
			nf = r.Range(0, ncols+1) // ragged
		}
		for j := 0; j < nf; j++ {
			if j > 0 {
				sb.WriteByte(',')
			}
			f := Pick(r, csvFieldAlpha)
			if sparse && j == ncols-1 {
				if i < 1100 {
					f = Pick(r, []string{"", "n/a", "x"})
				} else {
					f = Pick(r, []string{"7.5", "3", "1e2"})
				}
			}
			if strings.ContainsAny(f, ",\"\n\r") || r.Chance(15) {
				sb.WriteString(csvQuote(f))
			} else {
				sb.WriteString(f)
			}
		}
		if i < nrows-1 || r.Chance(70) {
			if big {
				sb.WriteString(Pick(r, []string{"\n", "\n", "\r\n"})) // a long table is well-formed most of the time
			} else {
				sb.WriteString(Pick(r, []string{"\n", "\n", "\n", "\r\n", "\n\n", "\r"}))
			}
		}
	}
	data := []byte(sb.String())
	// byte-level mutations of well-formed input: flip, insert, delete, truncate
	if r.Chance(35) && len(data) > 0 && !(big && r.Chance(90)) {
		for k := r.Range(1, 3); k > 0 && len(data) > 0; k-- {
			pos := r.Intn(len(data))
			special := []byte{'"', ',', '\n', '\r', ' ', 'a', '1'}
			switch r.Intn(4) {
			case 0:
				data[pos] = Pick(r, special)
			case 1:
				data = append(data[:pos], append([]byte{Pick(r, special)}, data[pos:]...)...)
			case 2:
				data = append(data[:pos], data[pos+1:]...)
			default:
				data = data[:pos]
			}
		}
	}
	if r.Chance(3) {
		data = nil
	}
	// the less-travelled ways in: by path (on a fresh and on an already used receiver), a reader whose first bytes the
	// caller has already consumed
	impVia = 0
	if csvDir != "" && r.Chance(25) {
		impVia = r.Range(1, 3)
	}
	emitImport(e, data)
	impVia = 0
	return e
}

// impVia: 0 FromCSVReader on a fresh reader; 1 FromCSV(path) on a fresh receiver; 2 FromCSV(path) on a receiver that
// already holds columns; 3 FromCSVReader on a seekable reader positioned after a prefix the caller consumed
var impVia int

func usedReceiver() *dataframe.DataFrame {
	df := dataframe.NewDataFrame()
	for _, n := range []string{"old", "a", "b", "zz"} {
		df.Columns[n] = &dataframe.Column[any]{Name: n, Data: []any{"o1", 2, nil, 4.5, "o5", 6, 7}}
	}
	return df
}

// genCsvSmall enumerates short byte strings over the structural alphabet (index -> string).
func genCsvSmall(idx int) *Enc {
	e := NewEnc()
	alpha := []byte{'a', ',', '"', '\r', '\n', ' ', '1'}
	var data []byte
	// mixed-radix: length classes 0..7
	n := idx
	for l := 0; ; l++ {
		cnt := 1
		for k := 0; k < l; k++ {
			cnt *= len(alpha)
		}
		if n < cnt {
			for k := 0; k < l; k++ {
				data = append(data, alpha[n%len(alpha)])
				n /= len(alpha)
			}
			break
		}
		n -= cnt
	}
	emitImport(e, data)
	return e
}

func emitImport(e *Enc, data []byte) {
	noteFields(e, data)
	e.Tok("IMP", "x"+hex.EncodeToString(data))
	var df *dataframe.DataFrame
	st, _ := guard(func() error {
		var err error
		switch impVia {
		case 1, 2:
			path := csvDir + "/imp.csv"
			if err := os.WriteFile(path, data, 0o644); err != nil {
				panic(err)
			}
			recv := dataframe.NewDataFrame()
			if impVia == 2 {
				recv = usedReceiver()
			}
			df, err = recv.FromCSV(path)
		case 3:
			prefix := []byte("# preamble the caller reads itself\nx,y\n1,2\n")
			rd := bytes.NewReader(append(append([]byte{}, prefix...), data...))
			if _, err := io.CopyN(io.Discard, rd, int64(len(prefix))); err != nil {
				panic(err)
			}
			df, err = dataframe.FromCSVReader(rd)
		default:
			df, err = dataframe.FromCSVReader(bytes.NewReader(data))
		}
		return err
	})
	e.Tok("R", st)
	if st == "ok" {
		e.Frame(df)
		e.Int(df.Nrows())
	}
	// what encoding/csv itself says (independent of goframe): used to validate the Lean reader model
	rd := csv.NewReader(bytes.NewReader(data))
	recs, err := rd.ReadAll()
	if err != nil {
		e.Tok("STD", "err")
	} else {
		e.Tok("STD", "ok")
		e.Int(len(recs))
		for _, rec := range recs {
			e.Strs(rec)
		}
	}
}

func csvCellFor(r *Rng, inDomain bool) any {
	if inDomain {
		switch r.Intn(8) {
		case 0:
			return r.Range(-5, 5)
		case 1:
			return Pick(r, []int{1 << 53, -(1 << 53), 123456789012, 0})
		case 2:
			return Pick(r, []float64{0.1, 1.5, -2.25, 1e21, 1e-7, 5e-324, math.MaxFloat64, math.NaN(), math.Inf(1), math.Inf(-1), math.Copysign(0, -1), 9007199254740993,
				9223372036854775808.0, -9223372036854775808.0, 1e19, 18446744073709551616.0, 4294967296.0})
		case 3:
			return float64(r.Range(-3, 3))
		default:
			return Pick(r, []string{"a", "b c", "x,y", "say \"hi\"", "line\nbreak", "cr\rin", "é", "漢字", "", "\\.", "a\"", "\"", ",", "tab\tin", "<nil>", "true", "1a", "--1", "e5", "a,\"b\"\n,c", "1,2,3", "12,5", "7,", "1,000", ",5", "over\rstrike", "5%",
				"#a", "#", "# c", "#1", ";x", "//c", "--", "'q'", "#a,b",
				"'=1+1", "'-", "'@h", "=1+1", "+x", "-x", "@h", "'", "''"})
		}
	}
	return Pick(r, []any{" lead", "trail ", "12", "1e3", "crlf\r\nx", " ", "nan", nil, true, int64(1) << 60})
}

func genCsvRoundTrip(r *Rng) *Enc {
	e := NewEnc()
	ncols := r.Range(1, 4)
	if r.Chance(3) {
		ncols = 0
	}
	n := r.Intn(6)
	if r.Intn(60) == 0 {
		n = Pick(r, []int{65, 100, 130})
	}
	names := []string{"a", "b", "c", "a b", "x,y", "q\"q", "l\nf", " s", "é", "", "1", "cr\r", "#h", "!", "#"}
	perm := r.Perm(len(names))
	df := dataframe.NewDataFrame()
	inDomain := !r.Chance(15)
	for j := 0; j < ncols; j++ {
		d := make([]any, n)
		for i := range d {
			d[i] = csvCellFor(r, inDomain || r.Chance(70))
		}
		df.Columns[names[perm[j]]] = &dataframe.Column[any]{Name: names[perm[j]], Data: d}
	}
	if ncols >= 2 && n >= 2 && r.Chance(8) {
		// the last row(s) hold the empty text in EVERY column: still rows
		for k := r.Range(1, 2); k > 0; k-- {
			for _, c := range df.Columns {
				c.Data[n-k] = ""
			}
		}
	}
	if ncols == 1 && r.Chance(15) {
		// a single column whose name contains a tab (or looks like another delimiter-separated header)
		for k, c := range df.Columns {
			delete(df.Columns, k)
			nm := Pick(r, []string{"a\tb", "x;y", "p|q", "\t"})
			c.Name = nm
			df.Columns[nm] = c
		}
	}
	if ncols > 0 && r.Chance(15) {
		// the frame has a history: it was exported once, then a column was renamed (anything remembered from the
		// first export must not leak into the recorded one)
		guard(func() error {
			var sink bytes.Buffer
			df.ToCSVWriter(&sink)
			ks := df.ColumnNames()
			old := Pick(r, ks)
			return df.RenameColumn(old, old+"_r")
		})
	}
	e.Tok("RT")
	e.Frame(df)
	var buf bytes.Buffer
	viaFile := csvDir != "" && r.Chance(20)
	rtFile := Pick(r, []string{"rt.csv", "rt.csv", "EXPORT.TSV", "data.tsv", "x.Tsv", "noext", "a.CSV", "t.txt"})
	st, _ := guard(func() error {
		if viaFile {
			// the by-path API, over a file that already exists and is longer than what will be written
			path := csvDir + "/" + rtFile
			if err := os.WriteFile(path, bytes.Repeat([]byte("old,old,old\n1,2,3\n"), 40), 0o644); err != nil {
				return err
			}
			if err := df.ToCSV(path); err != nil {
				return err
			}
			b, err := os.ReadFile(path)
			buf.Write(b)
			return err
		}
		return df.ToCSVWriter(&buf)
	})
	e.Tok("W", st, "x"+hex.EncodeToString(buf.Bytes()))
	noteFields(e, buf.Bytes())
	var back *dataframe.DataFrame
	usedRecv := r.Bool()
	st2, _ := guard(func() error {
		var err error
		if viaFile {
			recv := dataframe.NewDataFrame()
			if usedRecv {
				recv = usedReceiver() // a loader frame that already holds another table
			}
			back, err = recv.FromCSV(csvDir + "/" + rtFile)
			return err
		}
		back, err = dataframe.FromCSVReader(bytes.NewReader(buf.Bytes()))
		return err
	})
	e.Tok("R", st2)
	if st2 == "ok" {
		e.Frame(back)
	}
	e.Tok("AFTER")
	e.Frame(df)
	return e
}

var _ = io.EOF

// csvDir is a scratch directory for the by-path API (set by main for the csv engine)
var csvDir string
