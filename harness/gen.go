package main

import (
	"math"
	"time"

	"github.com/kishyassin/goframe/dataframe"
)

// Rng is splitmix64: every random choice of a run derives from one seed.
type Rng struct{ s uint64 }

func NewRng(seed uint64) *Rng { return &Rng{s: seed*0x9E3779B97F4A7C15 + 0x1234567} }
func (r *Rng) U64() uint64 {
	r.s += 0x9E3779B97F4A7C15
	z := r.s
	z = (z ^ (z >> 30)) * 0xBF58476D1CE4E5B9
	z = (z ^ (z >> 27)) * 0x94D049BB133111EB
	return z ^ (z >> 31)
}
func (r *Rng) Intn(n int) int {
	if n <= 0 {
		return 0
	}
	return int(r.U64() % uint64(n))
}
func (r *Rng) Bool() bool        { return r.U64()&1 == 1 }
func (r *Rng) Chance(p int) bool { return r.Intn(100) < p }
func (r *Rng) Range(lo, hi int) int {
	return lo + r.Intn(hi-lo+1)
}
func Pick[T any](r *Rng, xs []T) T { return xs[r.Intn(len(xs))] }

// Fork gives an independent stream for case i so that case i can be regenerated alone.
func (r *Rng) Fork(i int) *Rng { return NewRng(r.s ^ (uint64(i)+1)*0xD1B54A32D192ED03) }

// ---- cell alphabets ----

var colNames = []string{"a", "b", "c", "d", "index", "k", "v", "GroupKey", "stat", "a|b", "x:y", "", " a", "a ", "b\t", "température", "é", "-a", "A"}
var plainNames = []string{"a", "b", "c", "d", "e"}

// small, collision-rich scalar cells
func smallCells() []any {
	return []any{nil, 0, 1, 2, -1, int64(1), int64(2), 1.0, 2.5, -0.5, "1", "a", "b", "", "nil", "<nil>",
		"x|y", "a:b", true, false, int8(1), uint8(2), int32(3), uint16(1), float32(0.5), "2.5", " a", "10", "9"}
}

func (r *Rng) Cell() any { return Pick(r, smallCells()) }

var allWidths = []any{int(3), int8(3), int16(3), int32(3), int64(3), uint(3), uint8(3), uint16(3), uint32(3), uint64(3), float32(1.5), float64(1.5)}

var utc = time.UTC
var zonePlus = time.FixedZone("P0530", 5*3600+1800)

func someTimes() []any {
	return []any{
		time.Date(2020, 1, 1, 0, 0, 0, 0, utc), time.Date(2020, 12, 31, 23, 59, 59, 0, utc),
		time.Date(2021, 3, 1, 12, 30, 15, 0, utc), time.Date(1999, 2, 28, 1, 2, 3, 0, utc),
	}
}

// colKind: a column generator keeps one kind (plus nils) most of the time
type colKind int

const (
	kInt colKind = iota
	kFloat
	kStr
	kBool
	kMixed
	kNumStr
	kTime
	kWide
)

func (r *Rng) CellOf(k colKind) any {
	if r.Chance(12) {
		return nil
	}
	switch k {
	case kInt:
		return r.Range(-2, 4)
	case kFloat:
		return Pick(r, []float64{0, 1, 2.5, -0.5, 3, 1e3, 0.25, -2})
	case kStr:
		return Pick(r, []string{"a", "b", "", "x|y", "a:b", "nil", "<nil>", "zz", " a", "B", "a ", "b  "})
	case kBool:
		return r.Bool()
	case kNumStr:
		return Pick(r, []string{"1", "2.5", "10", "9", "-3", "1e2", "abc", "1a"})
	case kTime:
		return Pick(r, someTimes())
	case kWide:
		return Pick(r, allWidths)
	default:
		return r.Cell()
	}
}

func (r *Rng) Kind() colKind {
	return Pick(r, []colKind{kInt, kInt, kFloat, kStr, kStr, kBool, kMixed, kMixed, kNumStr, kTime, kWide})
}

func (r *Rng) Column(n int, k colKind) []any {
	d := make([]any, n)
	for i := range d {
		d[i] = r.CellOf(k)
	}
	return d
}

// Frame builds a rectangular frame with ncols columns of n rows, names from the given pool.
func (r *Rng) Frame(n, ncols int, names []string) *dataframe.DataFrame {
	df := dataframe.NewDataFrame()
	perm := r.Perm(len(names))
	for j := 0; j < ncols && j < len(names); j++ {
		name := names[perm[j]]
		df.Columns[name] = &dataframe.Column[any]{Name: name, Data: r.Column(n, r.Kind())}
	}
	return df
}

func (r *Rng) Perm(n int) []int {
	p := make([]int, n)
	for i := range p {
		p[i] = i
	}
	for i := n - 1; i > 0; i-- {
		j := r.Intn(i + 1)
		p[i], p[j] = p[j], p[i]
	}
	return p
}

func (r *Rng) SmallN() int {
	if r.Chance(60) {
		return r.Intn(4)
	}
	return r.Intn(9)
}

func (r *Rng) BoundaryInt(n int) int {
	c := []int{-1, 0, 1, n - 1, n, n + 1, 2 * n, -n, math.MinInt64, math.MaxInt64, math.MinInt64 + 1, math.MaxInt64 - 1, -2, 2, 3}
	return Pick(r, c)
}

func keysOf(df *dataframe.DataFrame) []string {
	return df.ColumnNames()
}

// NameFor picks an existing column name most of the time, otherwise an absent one.
func (r *Rng) NameFor(df *dataframe.DataFrame, names []string) string {
	ks := keysOf(df)
	if len(ks) > 0 && r.Chance(85) {
		return Pick(r, ks)
	}
	return Pick(r, append([]string{"zz", "nope", "temperature", "ü"}, names...))
}
